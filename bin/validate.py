#!/opt/veriftools/pyvenv/bin/python
import json, sys, glob, jsonschema
jsonschema.validate(json.load(open('/verif/MANIFEST.json')), json.load(open('/root/.vp/MANIFEST.schema.json')))
es = json.load(open('/root/.vp/EVIDENCE.schema.json'))
for p in sorted(glob.glob('/verif/evidence/*.json')):
    jsonschema.validate(json.load(open(p)), es)
    print('ok', p)
m = json.load(open('/verif/MANIFEST.json'))
ids = [c['property_id'] for c in m['checks']] + [c['property_id'] for c in m.get('not_applicable', [])]
props = [json.loads(l)['id'] for l in open('/verif/properties.jsonl')]
assert sorted(ids) == sorted(props), (sorted(ids), props)
print('manifest ok: %d claimed, %d n/a' % (len(m['checks']), len(m.get('not_applicable', []))))
