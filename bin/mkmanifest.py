#!/usr/bin/env python3
"""Regenerates /verif/MANIFEST.json from the table below (single source of truth for the interface)."""
import json, os
V = os.path.dirname(os.path.dirname(os.path.abspath(__file__)))
props = [json.loads(l) for l in open(os.path.join(V, "properties.jsonl"))]
TV = "TLA+ trace validation (TLC) of public-API calls recorded from the real library"
WM = "TLC exhaustive exploration of a TLA+ world model against bounds recorded from the real library"
BUILT = {
 "C09": dict(tech=TV + " against the closed-form SBF of Supply.tla; reservation automaton model-checked (Reservation.tla)",
   text="Tables of provided_service/service_time recorded from the real Periodic/Constrained/Dedicated objects (specialised and default inverse) are validated by TLC against the closed-form SBF of Supply.tla for every (Q,D,P) with P<=14 (thorough 40) plus random larger triples.",
   note="Trusts TLC, the JSON bridge and the closed form of Supply.tla (itself model-checked against the reservation automaton)."),
 "C10": dict(tech=TV + " against the arrival-model semantics of Arrival.tla",
   text="number_arrivals tables of every arrival model kind (enumerated small parameters + seeded random compositions) are validated by TLC: zero at 0, monotone, never below the specification's bound Eta (tight curve of the admissible sequences for Periodic/Sporadic/delta-min prefixes, compositional for Propagated/jitter/sums), equality and sub-additivity for Periodic/Sporadic, jitter a then b = jitter a+b.",
   note="Eta of Arrival.tla is the trusted statement of the admissible event processes; window lengths <= 260."),
 "C11": dict(tech=TV + ": steps_iter streams versus the increase points of the recorded table (TraceArrival.tla)",
   text="For every arrival bound / request bound description the raw items of steps_iter and the table of the same object are recorded; TLC accepts iff the items are strictly increasing, never 0, and exactly the increase points within the horizon; demand::step_offsets is the same stream shifted by one.",
   note="Horizon 3x the model's span (<=300); known findings F3/F3b (ArrivalCurvePrefix yields 0) are listed in known_findings.json."),
 "C14": dict(tech=TV + " against Wcet.tla (prefix sums, closure floor, trace domination)",
   text="Cost tables of all cost-model kinds; Curve::from_trace on every cost trace of length<=5 over 1..3 (thorough 7) x every max_n checked by TLC against every run of consecutive trace entries; extrapolation checked to never raise a bound inside the extended prefix, to keep the prefix and to stay above the sub-additive closure.",
   note="Known finding F7 (partial extrapolation raises bounds beyond the extended prefix) listed; histories of cost_of_jobs / least_wcet / job_cost_iter on shared wcet::ExtrapolatingCurve clones are replayed through the CurveCache machine (TraceCache.tla)."),
 "C16": dict(tech=TV + " of request-bound trees (TraceCost.tla)",
   text="One event per node of random request-bound trees: TLC checks service_needed = cost(number_arrivals), job_cost_iter sums, aggregate sums, least_wcet_in_interval, service_needed_by_n_jobs (monotone, bounded, saturating, n largest) and the per-component variant.",
   note="Trees of depth<=2 over all arrival x cost kinds and Box/Rc/&/Aggregate/Slice wrappers."),
 "C08": dict(tech=TV + " against the definition Lfp of FixedPoint.tla; Kleene iteration model-checked against Lfp (MCFixedPoint)",
   text="search / search_with_offset / max_response_time are called on table-defined monotone workloads for every small (workload, supply, offset, limit) of the model-checked box and on random larger tables, with dedicated, periodic, constrained and user-defined supplies (specialised and default service_time); TLC accepts a call iff it returned Lfp (least r with sbf(off+r) >= w(max(r,1))) or the divergence error with (offset, limit) exactly when no such r <= limit exists.",
   note="Premise of C08: offsets inside the busy window, monotone workloads, 1-Lipschitz supplies."),
 "C06": dict(tech=TV + " against the definitional analyses of Analyses.tla (every offset, linear-scan fixed points)",
   text="Each of the nine dedicated-processor analyses is called on an enumerated box of task pairs and on seeded random inputs (jitter, bursts, conversions, non-scalar costs, blocking, segments, limits around the busy-window length); TLC re-evaluates the published definition naively over the request-bound tables recorded from the same objects (L by linear scan, every offset A in [0,L), max) and accepts iff value and Ok/Err agree.",
   note="Domain W: the task under analysis releases at least one job. Known finding F9 (ArrivalCurvePrefix) listed."),
 "C01": dict(tech=WM + " (spec/Sched.tla, all schedules of each explored system) + " + TV + " (Analyses.tla)",
   text="For every explored task system the bound of each of the four FP analyses is computed by the real library with the inputs the property prescribes (higher-or-equal-priority interference, blocking = longest lower-priority NP segment - 1, own last segment) and TLC then explores EVERY schedule of the system in the scheduler world model (all curve-compliant releases, execution times 1..C, segment lengths / floating-region placements, tie-breaks; unbounded time since all clocks are relative) against the invariant 'no pending job of a claimed task reaches age R'. A second stage validates the same analyses against their definitional evaluation.",
   note="Complete per explored system; the set of systems is an enumerated 2-task box plus seeded random 2-3 (thorough 2-4) task systems with T<=7 (10), C<=3 (4), bounded backlog. Scheduler semantics of Sched.tla are the trusted model."),
 "C02": dict(tech=WM + " (spec/Sched.tla, policy EDF) + " + TV + " (Analyses.tla)",
   text="As C01 for the four EDF analyses: relative deadlines drawn from 1..2T+2 (incl. D>T and D<C), EDF key = D - age with arbitrary tie-breaking re-chosen at every preemption point; invariant 'no pending job reaches age R'; second stage: definitional evaluation.",
   note="Only systems in which every task has a claim are explored (ages decide priorities). Same bounds as C01."),
 "C03": dict(tech=WM + " (spec/Sched.tla, policy FIFO) + " + TV + " (Analyses.tla)",
   text="As C01 for the FIFO analysis (tasks passed as Aggregate, Slice and boxed aggregate alternately): FIFO key = age with arbitrary tie-breaking among simultaneous releases; one bound for all tasks; second stage: definitional evaluation.",
   note="Same bounds as C01."),
 "C18": dict(tech=WM + " with witness probes (spec/Sched.tla, MCSchedWitness.cfg)",
   text="Systems with exact realisable arrival models only; the bounds of FP-P, FP-NP (with the lower-priority blocker in the task set) and FIFO are recorded from the library, TLC explores every schedule with a completion-response variable and must reach, for every claimed task (FIFO: some task), a state in which a job completes with response time exactly R.",
   note="Existence is shown by an explicit reachable witness state per (system, task); bounds as C01."),
 "C19": dict(tech=TV + ": groups of calls that model the same system must return the same result (TraceAnalyses.tla)",
   text="For 21000 (thorough 200000) seeded random systems one of the seven agreement families of the property is exercised on the real analyses (LP(last=1,B=0)=P, LP(last=C,B)=NP(B), FNP(B)=LP(last=1,B), the three EDF analogues, equal deadlines => max NP-EDF = FIFO; ROS 2 supply equivalences and event source = FIFO in the ros2 stage); TLC accepts a record iff all results of the group are the same Ok value or all Err.",
   note="Half of the systems use very small periods so that coinciding steps are frequent. A panic is 'no claim' here (C20 owns panics)."),
 "C17": dict(tech=TV + " of hardening walks against the Mono state machine (TraceHarden.tla)",
   text="Seeded random base systems are hardened one parameter at a time (WCET+1, jitter+, period-1, blocking+, interfering NP segment+1, task added, limit raised); after each step all nine dedicated-processor analyses (and in the ros2 stage the ROS 2 analyses incl. supply weakening) are re-run on the real library; TLC replays the recorded walk through the state machine whose Harden action demands res' >= res (Err on top) and whose RaiseLimit action demands that Ok results are unchanged.",
   note="The task-under-analysis' own last non-preemptive segment is not treated as a hardening (DESIGN.md C17)."),
 "C07": dict(tech=TV + " against the definitional ROS 2 analyses of Ros2Analyses.tla (every offset, linear-scan fixed points, SBF from Supply.tla)",
   text="The six ROS 2 analyses are called on 9000 (thorough 60000) seeded random inputs: event source / timer / polling-point callback / chain over nested request bounds, rr and bw subchains (singleton and multi-callback, all four callback kinds, known and unknown priorities, Scalar/Multiframe/Curve costs, assumed bounds WCET..WCET+20) under dedicated / periodic / constrained supplies; TLC re-evaluates the defining inequalities naively over the recorded demand / arrival / cost tables with the supply-bound function computed from the reservation parameters alone and accepts iff value and Ok/Err agree.",
   note="Domain W: the callback under analysis releases at least one job. Known finding F9 (ArrivalCurvePrefix) listed."),
 "C04": dict(tech=WM + " (spec/Ros2Exec.tla executor + reservation automaton; spec/Sched.tla FIFO server under a reservation) + " + TV + " (Ros2Analyses.tla)",
   text="Executor workloads (timers, polled callbacks, chains of polled callbacks, random priority order) under dedicated / periodic / constrained reservations: bounds from rta_timer, rta_polling_point_callback and rta_processing_chain composed as the ECRTS'19 analysis prescribes; TLC explores EVERY execution of the executor world model (A1-A5: timers live and first, ready set refreshed only when empty, non-preemptive callbacks, successor activation at completion; all arrival sequences, execution times 1..C and budget placements; unbounded time) against 'no pending instance reaches age R' (chains: age since the source arrival). Event sources are checked as FIFO servers under a reservation in Sched.tla against rta_event_source. A further stage validates the same analyses against their definitional evaluation.",
   note="Complete per explored workload; workloads are seeded random with <=4 (5) callbacks, small periods, and a state-space estimate below 1.5e6 (4e7); only workloads in which every callback has a claim are explored. The executor semantics A1-A5 are the trusted model (written from the papers' model as remembered; no violation on the unchanged tree, seeded defects are found)."),
 "C05": dict(tech=WM + " (spec/Ros2Exec.tla, all priority orders consistent with the known priorities) + " + TV + " (Ros2Analyses.tla)",
   text="Workloads mixing timers, polled callbacks with known priority and with unknown priority (external arrival curves): for rr and for bw the bound vector is computed by iterating the real singleton-subchain analysis upwards from the WCETs until it reproduces itself; TLC then explores every execution of the executor world model for every priority order consistent with the known priorities against 'no pending instance reaches age R_i'. A further stage validates rr/bw against their definitional evaluation.",
   note="As C04; multi-callback subchains are covered equationally (C07), the property speaks of singleton fixed points."),
 "C12": dict(tech=TV + ": window counts of generated traces, source/derived tables, delta_min_iter duality (TraceArrival.tla)",
   text="Curve::from_trace on every event trace with <=5 events and gaps 0..3 (thorough <=7, 0..4) x every prefix length plus random longer traces: TLC computes the largest number of trace events in any window of every length up to twice the span and accepts iff the inferred curve is never below it; conversions (from_arrival_bound, from_arrival_bound_until, From<Periodic/Sporadic/&ArrivalCurvePrefix>, ArrivalCurvePrefix::from_arrival_bound_until) on random sources: never smaller than the source, equal up to the covered prefix / horizon; delta_min_iter: (n,x) exactly when the table of number_arrivals reaches n at x+1 and not at x.",
   note="Sources whose own extrapolation is pessimistic are compared inside their exact region and against their exact root model; the literal shortfall beyond is known finding F11."),
 "C13": dict(tech=TV + " (TraceArrival.tla) + replay of query histories through the CurveCache state machine (TraceCache.tla)",
   text="extrapolate / extrapolate_steps / extrapolate_with_bound on every super-additive prefix of length 2-3 with entries <=6 (thorough 8) and random longer ones: values inside the original prefix unchanged, never more arrivals inside the extended prefix, never below the tight curve of the prefix-respecting sequences (Arrival.tla closure). Cache: seeded random histories (number_arrivals on three clones sharing the cache, live steps_iter iterators interleaved) are executed on the real ExtrapolatingCurve and replayed by TLC through the CurveCache machine; every answer must equal the eager (history-independent) answer and no call may panic.",
   note="Known finding F6 (partial extrapolation raises values beyond the extended prefix) listed. The cache machine itself is model-checked for history independence (MCCurveCache)."),
 "C20": dict(tech=TV + ": the same calls recorded from a dev and from a release build, joined and compared by TLC (TraceLib.tla, TotalFails)",
   text="Every driver of the framework (model queries, step iterators, cost models, request bounds, supplies, fixed-point search, the nine + six analyses, derived curves, extrapolation, cache histories; ~93000 calls in the quick tier) plus a corner-case driver (Never, empty interference, zero blocking, limit 1, D<C, subchain = whole workload, budget = period, step-less search spaces) is executed twice on identical seeded inputs: by a harness built with debug assertions and overflow checks (the library's own brute-force cross-checks are active) and by a release build. The two traces are joined call by call; TLC accepts a call iff both builds returned (a panic or a hang is not a behaviour of the specification) and returned the same value.",
   note="Hang = no return within the watchdog (20 s, corner driver 6 s). Known findings F9/F9b/F3c (consequences of the pinned ArrivalCurvePrefix step 0) are listed; F8, F10, F13, F14 were repaired by fix: commits."),
 "C15": dict(level="other", tech="TLA+ trace validation (TLC) of recorded quantiles against an integer interval-arithmetic enclosure of the Poisson quantile (Poisson.tla)",
   text="number_arrivals is recorded for rates {1/4,1/2,1,2} x epsilon {1/10,1/20,1/100,1/1000} x interval lengths up to mean 1000 (thorough 2000), arrival_probability for small means; Poisson.tla encloses the Poisson weights by integer recurrences with outward rounding and derives an interval that provably contains the (1-epsilon)-quantile; TLC accepts iff each call returned, the value lies in the interval, is 0 at 0 and monotone, and the recorded mass function satisfies the Poisson recurrence and sums to one. Reduced strength: reals are not available in TLA+/TLC, the enclosure is 1-3 values wide and cannot resolve epsilons far below 10^-3.",
   note="Watchdog 20 s per call for termination. The defect F2 (wrong values from mean ~130, non-termination from mean ~745) was found by this check and repaired."),
}
m = {"version": 1, "setup_cmd": "bin/vf setup",
     "hooks": {"guard": "--cfg rta_verif",
               "enable": "harness/.cargo/config.toml passes --cfg rta_verif to rustc for the harness and its path dependency /repo; no hook exists in /repo (none is needed: every observed quantity is a public return value)",
               "baseline_off_cmd": "cd /repo && cargo test --workspace --no-fail-fast --offline",
               "source_commits": [], "add_only": True},
     "engines": [{"name": "vf", "path": "bin/vf", "serves_properties": sorted(BUILT),
                  "kind_free_text": "TLA+ specifications (spec/) checked with TLC; Rust harness (harness/) records public-API calls of the real library as ndjson; TLC trace validation / world-model exploration decides"}],
     "checks": [], "not_applicable": [],
     "notes": "Model-based verification with explicit TLA+ specifications; see DESIGN.md. Genuine defects found are in known_findings.json (fixed ones as 'fix:' commits in /repo)."}
for p in props:
    pid = p["id"]
    if pid in BUILT:
        b = BUILT[pid]
        m["checks"].append({"property_id": pid, "quick_cmd": "bin/vf check %s --tier quick" % pid,
                            "thorough_cmd": "bin/vf check %s --tier thorough" % pid,
                            "evidence_file": "evidence/%s.json" % pid, "replay_cmd_template": "bin/vf replay {path}",
                            "engine": "vf",
                            "level_claimed": {"category": b.get("level", "model_checking"), "text": b["text"],
                                              "design_ref": "DESIGN.md §4 " + pid},
                            "level_note": b["note"], "technique": b["tech"]})
    else:
        m["not_applicable"].append({"property_id": pid, "reason": "check not built yet in this revision (planned with the same technique, see DESIGN.md §4/§8)"})
json.dump(m, open(os.path.join(V, "MANIFEST.json"), "w"), indent=1)
print("claimed:", sorted(BUILT))
