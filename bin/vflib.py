"""Runner library for /verif (DESIGN.md §2): orchestrates, counts, applies the
known-findings file and prints VIOLATION / KNOWN-FINDING lines.  It never
computes a verdict itself: every verdict is a TLC result (a rejected trace
line, a violated invariant, a missing witness) over values recorded from the
implementation."""
import hashlib
import json
import os
import re
import shutil
import subprocess
import sys
import time

VERIF = os.path.dirname(os.path.dirname(os.path.abspath(__file__)))
REPO = os.environ.get("RTA_REPO", "/repo")
SPEC = os.path.join(VERIF, "spec")
HARNESS = os.path.join(VERIF, "harness")
WORK = os.path.join(VERIF, "work")
EVID = os.path.join(VERIF, "evidence")
REPLAYS = os.path.join(VERIF, "replays")
JARS = "/opt/veriftools/tla/tla2tools.jar:/opt/veriftools/tla/CommunityModules-deps.jar"
NCPU = int(os.environ.get("VF_JOBS", "16"))


class ToolError(Exception):
    pass


def log(msg):
    print("[vf] " + msg, flush=True)


def sh(cmd, cwd=None, env=None, timeout=None, check=True):
    e = dict(os.environ)
    if env:
        e.update(env)
    p = subprocess.run(cmd, cwd=cwd, env=e, timeout=timeout, stdout=subprocess.PIPE,
                       stderr=subprocess.STDOUT, text=True)
    if check and p.returncode != 0:
        raise ToolError("command failed (%d): %s\n%s" % (p.returncode, " ".join(cmd), p.stdout[-4000:]))
    return p


# --------------------------------------------------------------------------
# harness
# --------------------------------------------------------------------------
_built = {}


def build_harness(profile="dev"):
    """(Re)build the harness against /repo's current working tree."""
    if profile in _built:
        return _built[profile]
    lock_src = os.path.join(REPO, "Cargo.lock")
    cmd = ["cargo", "build", "--offline", "--quiet"]
    if profile == "release":
        cmd.append("--release")
    env = {"CARGO_NET_OFFLINE": "true"}
    t0 = time.time()
    p = sh(cmd, cwd=HARNESS, env=env, timeout=1800, check=False)
    if p.returncode != 0:
        raise ToolError("harness build failed (does /repo still compile?)\n" + p.stdout[-6000:])
    exe = os.path.join(HARNESS, "target", "debug" if profile == "dev" else "release", "rta-harness")
    log("harness (%s) built in %.1fs" % (profile, time.time() - t0))
    _built[profile] = exe
    return exe


def _limit_mem():
    import resource
    lim = 24 << 30
    resource.setrlimit(resource.RLIMIT_AS, (lim, lim))


MAX_HANGS = 12


def run_driver(driver, out, tier, seed, profile="dev", extra=None, timeout=3600):
    """Run a harness driver.  A call that hangs makes the driver record the hang and exit 3; it is then
    restarted behind the hanging call (generation is deterministic) and its output is appended."""
    exe = build_harness(profile)
    skip, total, parts = 0, 0, []
    for attempt in range(MAX_HANGS):
        part = out if attempt == 0 else "%s.part%d" % (out, attempt)
        cmd = [exe, driver, "--out", part, "--tier", tier, "--seed", str(seed), "--skip", str(skip)] + (extra or [])
        p = subprocess.run(cmd, cwd=HARNESS, timeout=timeout, stdout=subprocess.PIPE, stderr=subprocess.STDOUT,
                           text=True, preexec_fn=_limit_mem)
        parts.append(part)
        m = re.search(r"HARNESS-DONE driver=\S+ events=(\d+)", p.stdout)
        h = re.search(r"HARNESS-HANG seq=(\d+) events=(\d+)", p.stdout)
        if p.returncode == 0 and m:
            total += int(m.group(1))
            break
        if p.returncode == 3 and h:
            skip = int(h.group(1))
            total += int(h.group(2))
            continue
        raise ToolError("driver %s failed (%d):\n%s" % (driver, p.returncode, p.stdout[-4000:]))
    else:
        # every one of these calls is already recorded as a hang (and will be rejected by the trace specification);
        # the rest of the driver's inputs is not generated -- the verdict does not need them
        log("driver %s: %d hanging calls, the remaining inputs of this driver are skipped" % (driver, MAX_HANGS))
    if len(parts) > 1:
        with open(out, "a") as f:
            for part in parts[1:]:
                with open(part) as g:
                    shutil.copyfileobj(g, f)
                os.remove(part)
    return total


# --------------------------------------------------------------------------
# TLC
# --------------------------------------------------------------------------
def java_cmd(gc, xmx, xss="64m", extra_props=None):
    cmd = ["java"]
    if gc == "serial":
        cmd += ["-XX:+UseSerialGC"]
    else:
        cmd += ["-XX:+UseParallelGC", "-XX:ParallelGCThreads=4"]
    cmd += ["-Xmx" + xmx, "-Xss" + xss, "-DTLA-Library=" + SPEC + ":" + os.path.join(SPEC, "trace") + ":" + os.path.join(SPEC, "mc")]
    for p in (extra_props or []):
        cmd.append(p)
    cmd += ["-cp", JARS, "tlc2.TLC"]
    return cmd


STATES_RE = re.compile(r"(\d+) states generated, (\d+) distinct states found")


def parse_states(out):
    gen = dist = 0
    for m in STATES_RE.finditer(out):
        gen, dist = int(m.group(1)), int(m.group(2))
    return gen, dist


def split_shards(path, n, workdir, session_key=None):
    """Split an ndjson trace into <= n shards of whole lines.  Returns
    [(shard_path, [global line numbers (1-based)])]."""
    with open(path) as f:
        lines = f.readlines()
    if not lines:
        return []
    n = max(1, min(n, len(lines)))
    shards = []
    if session_key is None:
        per = (len(lines) + n - 1) // n
        for i in range(n):
            chunk = lines[i * per:(i + 1) * per]
            if not chunk:
                continue
            sp = os.path.join(workdir, "shard%03d.ndjson" % i)
            with open(sp, "w") as f:
                f.writelines(chunk)
            shards.append((sp, list(range(i * per + 1, i * per + len(chunk) + 1))))
    else:
        # keep sessions (delimited by lines for which session_key(line) is True) together
        groups, cur = [], []
        for idx, ln in enumerate(lines):
            if session_key(ln) and cur:
                groups.append(cur)
                cur = []
            cur.append(idx)
        if cur:
            groups.append(cur)
        buckets = [[] for _ in range(n)]
        sizes = [0] * n
        for g in groups:
            b = sizes.index(min(sizes))
            buckets[b].extend(g)
            sizes[b] += len(g)
        for i, b in enumerate(buckets):
            if not b:
                continue
            sp = os.path.join(workdir, "shard%03d.ndjson" % i)
            with open(sp, "w") as f:
                f.writelines(lines[j] for j in b)
            shards.append((sp, [j + 1 for j in b]))
    return shards


REJECT_RE = re.compile(r'^"?REJECT (\d+) (\S+) (\{.*\})"?$')
END_RE = re.compile(r'^"?TRACE-END (\d+) (\d+)"?$')


def tlc_trace(spec_dir, spec, cfg, trace, workdir, timeout=1800, session_key=None, xmx="2g", env_extra=None):
    """Validate an ndjson trace against a trace specification.  The trace is split into shards of whole lines
    (sessions are kept together); at most NCPU TLC instances run at a time; a shard holds at most ~12 MB of JSON.
    Returns dict(rejects=[(global_line, op, [checks])], states, transitions, lines)."""
    size = os.path.getsize(trace)
    nshards = max(NCPU, (size + (12 << 20) - 1) // (12 << 20))
    shards = split_shards(trace, nshards, workdir, session_key)
    pending = list(enumerate(shards))
    running, done = [], []

    def start(i, sp, gl):
        meta = os.path.join(workdir, "meta%03d" % i)
        shutil.rmtree(meta, ignore_errors=True)
        tmpd = os.path.join(workdir, "jtmp")
        os.makedirs(tmpd, exist_ok=True)     # TLC leaves a tlc-<n> directory in java.io.tmpdir per run: keep it in the work directory
        cmd = java_cmd("serial", xmx, extra_props=["-Djava.io.tmpdir=" + tmpd]) + ["-workers", "1", "-config", cfg, "-metadir", meta, "-noGenerateSpecTE", spec]
        env = dict(os.environ)
        env["TRACE"] = sp
        if env_extra:
            env.update(env_extra)
        outp = open(os.path.join(workdir, "tlc%03d.out" % i), "w")
        p = subprocess.Popen(["timeout", str(timeout)] + cmd, cwd=spec_dir, env=env, stdout=outp, stderr=subprocess.STDOUT)
        return (p, outp, sp, gl, meta, i)

    while pending or running:
        while pending and len(running) < NCPU:
            i, (sp, gl) = pending.pop(0)
            running.append(start(i, sp, gl))
        still = []
        for r in running:
            if r[0].poll() is None:
                still.append(r)
            else:
                done.append(r)
        running = still
        if running:
            time.sleep(0.05)
    rejects, gen, dist, total = [], 0, 0, 0
    retried = set()
    for p, outp, sp, gl, meta, i in done:
        rc = p.returncode
        outp.close()
        with open(outp.name) as f:
            out = f.read()
        shutil.rmtree(meta, ignore_errors=True)
        ended = None
        shard_rejects = []
        for ln in out.splitlines():
            m = REJECT_RE.match(ln.strip())
            if m:
                checks = re.findall(r'"([^"]+)"', m.group(3).replace('\\"', '"'))
                shard_rejects.append((gl[int(m.group(1)) - 1], m.group(2), checks))
            m = END_RE.match(ln.strip())
            if m:
                ended = (int(m.group(1)), int(m.group(2)))
        if rc == 124:
            raise ToolError("TLC timed out on %s (see %s)" % (sp, outp.name))
        ok = "Model checking completed. No error has been found." in out
        if not ok or ended is None or ended[0] != len(gl) or ended[1] != len(shard_rejects):
            if (sp, "retried") not in retried:
                # a JVM that died for an external reason (memory pressure) must not look like a verdict: retry once, alone
                retried.add((sp, "retried"))
                log("TLC failed on %s (rc=%d); retrying this shard once" % (sp, rc))
                r2 = start(i, sp, gl)
                r2[0].wait()
                done.append(r2)
                continue
            raise ToolError("TLC did not consume trace shard %s (rc=%d); see %s\n%s" %
                            (sp, rc, outp.name, out[-3000:]))
        g, dd = parse_states(out)
        gen += g
        dist += dd
        total += len(gl)
        rejects.extend(shard_rejects)
        if not shard_rejects:
            os.remove(outp.name)
            os.remove(sp)
    rejects.sort()
    return dict(rejects=rejects, transitions=gen, states=dist, lines=total)


def tlc_mc(spec_dir, spec, cfg, workdir, tag, timeout=3600, workers=None, env_extra=None, xmx="16g",
           extra_args=None, coverage=False):
    """Run TLC in model-checking mode.  Returns (rc, output)."""
    meta = os.path.join(workdir, "meta-" + tag)
    shutil.rmtree(meta, ignore_errors=True)
    tmpd = os.path.join(workdir, "jtmp")
    os.makedirs(tmpd, exist_ok=True)
    cmd = java_cmd("parallel", xmx, extra_props=["-Djava.io.tmpdir=" + tmpd]) + ["-workers", str(workers or NCPU), "-config", cfg, "-metadir", meta,
                                       "-cleanup", "-noGenerateSpecTE"]
    if coverage:
        cmd += ["-coverage", "1"]
    cmd += (extra_args or []) + [spec]
    env = dict(os.environ)
    if env_extra:
        env.update(env_extra)
    outpath = os.path.join(workdir, "tlc-%s.out" % tag)
    with open(outpath, "w") as outp:
        p = subprocess.run(["timeout", str(timeout)] + cmd, cwd=spec_dir, env=env, stdout=outp,
                           stderr=subprocess.STDOUT)
    with open(outpath) as f:
        out = f.read()
    shutil.rmtree(meta, ignore_errors=True)
    if p.returncode == 124:
        raise ToolError("TLC timed out (%ds) on %s/%s; see %s" % (timeout, spec, cfg, outpath))
    return p.returncode, out


# --------------------------------------------------------------------------
# known findings, evidence, verdict
# --------------------------------------------------------------------------
def load_known():
    p = os.path.join(VERIF, "known_findings.json")
    if not os.path.exists(p):
        return []
    with open(p) as f:
        return json.load(f)["findings"]


def dig(obj, path):
    cur = obj
    for part in path.split("."):
        if isinstance(cur, dict) and part in cur:
            cur = cur[part]
        else:
            return None
    return cur


def finding_matches(entry, prop, failure):
    """failure: dict(op=, check=, record=<event dict>, extra...)"""
    if entry.get("status") != "known" or entry["property"] != prop:
        return False
    for key, want in entry["match"].items():
        if key == "tags_any":
            tags = failure.get("tags") or dig(failure.get("record", {}), "in.tags") or []
            if not any(t in tags for t in want):
                return False
        elif key == "tags_all":
            tags = failure.get("tags") or dig(failure.get("record", {}), "in.tags") or []
            if not all(t in tags for t in want):
                return False
        elif key == "panic_contains":
            msg = dig(failure.get("record", {}), "out.panic") or failure.get("panic") or ""
            if want not in msg:
                return False
        elif key in ("op", "check", "stage"):
            got = failure.get(key)
            if isinstance(want, list):
                if got not in want:
                    return False
            elif got != want:
                return False
        else:
            got = dig(failure.get("record", {}), key)
            if isinstance(want, list) and not isinstance(got, list):
                if got not in want:
                    return False
            elif got != want:
                return False
    return True


def canon(obj):
    return json.dumps(obj, sort_keys=True, separators=(",", ":"))


def shorten(obj, limit=600):
    s = canon(obj)
    if len(s) <= limit:
        return obj
    return {"truncated": s[:limit] + "..."}


class Run:
    """Accumulates what one check covered and what it found."""

    def __init__(self, prop, tier, seed, level="model_checking"):
        self.prop, self.tier, self.seed, self.level = prop, tier, seed, level
        self.t0 = time.time()
        self.cov = dict(evaluations=0, distinct_nontrivial=0, rule="", samples=[], states=0, transitions=0,
                        traces_validated_against_impl=0, exhaustive=False, stages=[])
        self.assumptions = []
        self.failures = []      # unexpected
        self.known_hits = {}    # what -> count
        self.known = load_known()
        self._distinct = set()
        self.workdir = os.path.join(WORK, "%s-%s" % (prop, tier))
        shutil.rmtree(self.workdir, ignore_errors=True)
        os.makedirs(self.workdir, exist_ok=True)
        os.makedirs(EVID, exist_ok=True)
        os.makedirs(REPLAYS, exist_ok=True)

    def sub(self, name):
        p = os.path.join(self.workdir, name)
        os.makedirs(p, exist_ok=True)
        return p

    def count(self, record, nontrivial):
        self.cov["evaluations"] += 1
        if nontrivial:
            h = hashlib.sha1(canon(record).encode()).digest()
            self._distinct.add(h)

    def sample(self, obj, maxn=6):
        if len(self.cov["samples"]) < maxn:
            self.cov["samples"].append(shorten(obj))

    def fail(self, failure):
        """failure: dict(stage, op, check, record, detail)"""
        for e in self.known:
            if finding_matches(e, self.prop, failure):
                self.known_hits.setdefault(e["what"], 0)
                self.known_hits[e["what"]] += 1
                return
        self.failures.append(failure)

    def stage(self, name, **info):
        d = dict(name=name)
        d.update(info)
        self.cov["stages"].append(d)

    def finish(self):
        self.cov["distinct_nontrivial"] = len(self._distinct)
        wall = time.time() - self.t0
        for what, n in sorted(self.known_hits.items()):
            print("KNOWN-FINDING: property=%s %s (%d occurrence%s in this run)" %
                  (self.prop, what, n, "" if n == 1 else "s"), flush=True)
        replay = None
        stale = os.path.join(REPLAYS, "%s-%s-%d.json" % (self.prop, self.tier, self.seed))
        if not self.failures and os.path.exists(stale):
            os.remove(stale)
        if self.failures:
            replay = os.path.join(REPLAYS, "%s-%s-%d.json" % (self.prop, self.tier, self.seed))
            with open(replay, "w") as f:
                json.dump(dict(property=self.prop, tier=self.tier, seed=self.seed,
                               failures=self.failures[:50], n_failures=len(self.failures)), f, indent=1)
        ev = dict(property_id=self.prop, tier=self.tier, seed=self.seed, level=self.level,
                  coverage=self.cov, assumptions=self.assumptions, wall_s=round(wall, 2),
                  violations=len(self.failures))
        ev["coverage"]["known_findings_hit"] = self.known_hits
        with open(os.path.join(EVID, self.prop + ".json"), "w") as f:
            json.dump(ev, f, indent=1)
        if self.failures:
            for fl in self.failures[:10]:
                log("violation: stage=%s op=%s check=%s detail=%s input=%s" % (
                    fl.get("stage"), fl.get("op"), fl.get("check"), fl.get("detail"),
                    canon(shorten(dig(fl.get("record", {}), "in") or fl.get("record", {}), 400))))
            print("VIOLATION property=%s replay=%s" % (self.prop, replay), flush=True)
            return 1
        log("%s %s: held on everything explored (%d evaluations, %d distinct non-trivial, %d states, %.1fs)" % (
            self.prop, self.tier, self.cov["evaluations"], self.cov["distinct_nontrivial"], self.cov["states"], wall))
        return 0


def read_events(path):
    with open(path) as f:
        return [json.loads(ln) for ln in f if ln.strip()]


def trace_stage(run, name, driver, spec="TraceLib.tla", cfg="TraceLib.cfg", profile="dev", extra=None,
                nontrivial=lambda e: True, session_key=None, timeout=1800, sample_every=None, xmx="2g",
                trace_path=None, keyfn=None, ignore_checks=()):
    """driver -> ndjson -> TLC trace validation; failures are routed through run.fail."""
    wd = run.sub(name)
    trace = trace_path or os.path.join(wd, "trace.ndjson")
    if trace_path is None:
        n = run_driver(driver, trace, run.tier, run.seed, profile=profile, extra=extra)
    events = read_events(trace)
    res = tlc_trace(os.path.join(SPEC, "trace"), spec, cfg, trace, wd, timeout=timeout,
                    session_key=session_key, xmx=xmx)
    for e in events:
        run.count(keyfn(e) if keyfn else e.get("in", e), nontrivial(e))
    step = sample_every or max(1, len(events) // 3)
    for e in events[::step][:3]:
        run.sample(e)
    run.cov["states"] += res["states"]
    run.cov["transitions"] += res["transitions"]
    run.cov["traces_validated_against_impl"] += res["lines"]
    for (gl, op, checks) in res["rejects"]:
        rec = events[gl - 1]
        for c in checks:
            if c in ignore_checks:
                continue
            run.fail(dict(stage=name, op=op, check=c, record=rec, line=gl, tags=dig(rec, "in.tags") or []))
    ignored = sum(1 for (_, _, checks) in res["rejects"] if all(c in ignore_checks for c in checks))
    run.stage(name, kind="trace-validation", driver=driver, spec=spec, events=len(events),
              rejected=len(res["rejects"]) - ignored, rejected_but_outside_this_property=ignored, states=res["states"])
    return events, res


# --------------------------------------------------------------------------
# R1: world-model exploration against claims recorded from the implementation
# --------------------------------------------------------------------------
VIOL_RE = re.compile(r"Error: Invariant (\w+) is violated")


def parse_violation(out):
    """Returns (invariant, cfg index, trace text) of the first reported violation, or None."""
    m = VIOL_RE.search(out)
    if not m:
        return None
    tail = out[m.start():]
    c = re.search(r"\bcfg = (\d+)", tail)
    end = tail.find("states generated")
    return m.group(1), (int(c.group(1)) if c else None), tail[:end if end > 0 else 6000][-6000:]


def world_stage(run, name, driver, spec, cfg, extra=None, slim=("id", "policy", "tasks", "supply"), env=None,
                timeout=7000, witness=None, max_rounds=3, profile="dev", workers=None, chunk=1200):
    """driver -> batch of systems with claims -> TLC explores the world model.
    witness: None, or function(record) -> set of expected witness keys (strings "id task")."""
    wd = run.sub(name)
    full = os.path.join(wd, "batch.ndjson")
    run_driver(driver, full, run.tier, run.seed, profile=profile, extra=extra)
    recs = read_events(full)
    if not recs:
        raise ToolError("driver %s produced no systems" % driver)
    for r in recs:
        run.count({k: r[k] for k in slim if k in r}, bool(r.get("nontrivial", True)))
    for r in recs[:: max(1, len(recs) // 3)][:3]:
        run.sample({k: r[k] for k in ("id", "policy", "variant", "tasks", "supply") if k in r})
    witnessed = set()
    explored = 0
    # large batches are explored in chunks: one TLC run over several hundred million states ends up with a
    # multi-gigabyte disk queue (and TLC 1.8's DiskStateQueue was seen to deadlock there); chunks keep each run small
    chunks = [recs[i:i + chunk] for i in range(0, len(recs), chunk)]
    for cno, crecs in enumerate(chunks):
        remaining = list(crecs)
        for rnd in range(max_rounds):
            batch = os.path.join(wd, "tlc-batch-%d-%d.ndjson" % (cno, rnd))
            with open(batch, "w") as f:
                for r in remaining:
                    sl = {k: r[k] for k in slim if k in r}
                    if isinstance(sl.get("supply"), dict) and sl["supply"].get("k") == "periodic":
                        sl["supply"] = dict(sl["supply"], D=sl["supply"]["P"])     # periodic = deadline equal to the period
                    f.write(json.dumps(sl) + "\n")
            e = {"BATCH": batch, "TRACKFIN": "1" if witness else "0"}
            if env:
                e.update(env)
            rc, out = tlc_mc(os.path.join(SPEC, "mc"), spec, cfg, wd, "%s-%d-%d" % (name, cno, rnd), timeout=timeout,
                             env_extra=e, workers=workers, coverage=False)
            gen, dist = parse_states(out)
            run.cov["states"] += dist
            run.cov["transitions"] += gen
            for ln in out.splitlines():
                m = re.match(r'^"?WITNESS (\d+) (\d+)"?$', ln.strip())
                if m:
                    witnessed.add("%s %s" % (m.group(1), m.group(2)))
            v = parse_violation(out)
            if v is None:
                if "Model checking completed. No error has been found." not in out:
                    raise ToolError("TLC failed on %s (rc=%d):\n%s" % (spec, rc, out[-3000:]))
                explored += len(remaining)
                break
            inv, ci, trace = v
            if ci is None or ci < 1 or ci > len(remaining):
                raise ToolError("cannot attribute TLC violation:\n" + trace[-3000:])
            bad = remaining.pop(ci - 1)
            run.fail(dict(stage=name, op=bad.get("policy", "") + "_" + bad.get("variant", ""), check=inv, record=bad,
                          detail="TLC counterexample (schedule) in replay file", trace=trace,
                          tags=bad.get("tags", [])))
            if not remaining:
                break
        else:
            log("more than %d violating systems in one chunk; the rest of that chunk was not explored" % max_rounds)
    run.cov["traces_validated_against_impl"] += len(recs)
    if run.tier == "thorough":
        # vacuity guard (guidance: -coverage 1): per-action counts on a prefix of the batch
        cb = os.path.join(wd, "tlc-batch-coverage.ndjson")
        with open(cb, "w") as f:
            for r in recs[:40]:
                sl = {k: r[k] for k in slim if k in r}
                if isinstance(sl.get("supply"), dict) and sl["supply"].get("k") == "periodic":
                    sl["supply"] = dict(sl["supply"], D=sl["supply"]["P"])
                f.write(json.dumps(sl) + "\n")
        e = {"BATCH": cb, "TRACKFIN": "1" if witness else "0"}
        if env:
            e.update(env)
        rc, cout = tlc_mc(os.path.join(SPEC, "mc"), spec, cfg, wd, name + "-coverage", timeout=timeout, env_extra=e,
                          workers=workers, coverage=True)
        acts = {}
        for m in re.finditer(r"^<(\w+) line \d+, col \d+ to line \d+, col \d+ of module (\w+)>: (\d+):(\d+)", cout, re.M):
            acts[m.group(1)] = [int(m.group(3)), int(m.group(4))]
        never = [a for a, c in acts.items() if c[1] == 0]
        run.stage(name + "-coverage", kind="action-coverage", systems=min(40, len(recs)), actions=acts)
        if never:
            raise ToolError("actions never taken in %s: %s (the property would be vacuous)" % (spec, never))
    if witness:
        # witness(r) = list of alternatives; of each alternative (a set of "id task" keys) one must be witnessed
        nexp = 0
        for r in recs:
            if any(f.get("record") is r for f in run.failures):
                continue
            for alt in witness(r):
                nexp += 1
                if not (set(alt) & witnessed):
                    run.fail(dict(stage=name, op=r.get("policy", "") + "_" + r.get("variant", ""), check="Attained", record=r,
                                  detail="no schedule attains the bound of task(s) %s" % sorted(alt), tags=r.get("tags", [])))
        run.stage(name + "-witness", expected=nexp, witnessed=len(witnessed))
    run.stage(name, kind="world-model", driver=driver, spec=spec, systems=len(recs), explored=explored)
    return recs


def mc_stage(run, name, spec, cfg, env=None, timeout=1200, workers=None, extra_args=None, gc_workers=True):
    """R3: model-check a specification module on its own (a theorem about the design); any TLC error fails the run."""
    wd = run.sub(name)
    rc, out = tlc_mc(os.path.join(SPEC, "mc"), spec, cfg, wd, name, timeout=timeout, env_extra=env, workers=workers,
                     extra_args=extra_args, coverage=(run.tier == "thorough"))
    gen, dist = parse_states(out)
    run.cov["states"] += dist
    run.cov["transitions"] += gen
    ok = "Model checking completed. No error has been found." in out or ("Finished in" in out and "Error" not in out)
    if not ok:
        v = parse_violation(out)
        run.fail(dict(stage=name, op=spec, check=(v[0] if v else "tlc_error"), record={"spec": spec, "cfg": cfg, "env": env},
                      detail="the specification itself violates its design-level property", trace=(v[2] if v else out[-4000:])))
    run.stage(name, kind="spec-model-checking", spec=spec, states=dist, ok=ok)
    return out



def _big_clauses(e):
    """The closed-form relations one recorded large-magnitude event has to satisfy, as TLA+ conjuncts over integer
    literals (spec/apalache/ClosedForms.tla); a call that did not return is the clause FALSE."""
    i, o = e["in"], e["out"]
    cs = []
    if e["op"] == "big_supply":
        if "sbf" not in o:
            return ["FALSE"]
        sp = i["supply"]
        if sp["k"] == "dedicated":
            Q = D = P = 1
        else:
            Q, P = sp["Q"], sp["P"]
            D = sp.get("D", P)
        for x, v in zip(i["xs"], o["sbf"]):
            cs.append("Sbf(%d, %d, %d, %d) = %d" % (Q, D, P, x, v))
        for dm, t in zip(i["ds"], o["st"]):
            cs.append("IsLeast(%d, %d, %d, %d, %d)" % (Q, D, P, t, dm))
        if "std" in o:
            for t, td in zip(o["st"], o["std"]):
                cs.append("%d = %d" % (t, td))
        if len(o["sbf"]) != len(i["xs"]) or len(o["st"]) != len(i["ds"]):
            cs.append("FALSE")
    elif e["op"] == "big_eta":
        if "eta" not in o:
            return ["FALSE"]
        T, J, C = i["T"], i["J"], i["C"]
        for x, v in zip(i["xs"], o["eta"]):
            cs.append("Eta(%d, %d, %d) = %d" % (T, J, x, v))
        for x, v in zip(i["xs"], o["sn"]):
            cs.append("%d * Eta(%d, %d, %d) = %d" % (C, T, J, x, v))
        st = o["steps"]
        cs.append("%d = %d" % (len(st), i["nsteps"]))
        if st:
            cs.append("%d = 1" % st[0])
        for a, b in zip(st, st[1:]):
            cs.append("NextStep(%d, %d, %d) = %d" % (T, J, a, b))
    elif e["op"] == "big_search":
        if "asked" not in o:
            return ["FALSE"]
        sp = i["supply"]
        if sp["k"] == "dedicated":
            Q = D = P = 1
        else:
            Q, P = sp["Q"], sp["P"]
            D = sp.get("D", P)
        a, w, off, lim, res = o["asked"], o["w"], i["off"], i["lim"], o["res"]
        W = lambda x: " + ".join(["%d" % i["B0"]] + ["%d * Eta(%d, %d, %d)" % (t["C"], t["T"], t["J"], x) for t in i["tasks"]])
        if not a or len(a) != len(w):
            return ["FALSE"]
        cs.append("%d = 1" % a[0])
        for x, v in zip(a, w):
            cs.append("%s = %d" % (W(x), v))                    # the workload the closure returned is the closed form
        for k in range(len(a) - 1):                             # each iterate is the supply inverse of the workload
            cs.append("%d <= %d /\\ %d > %d /\\ IsLeast(%d, %d, %d, %d, %d)" % (a[k], lim, a[k + 1], a[k], Q, D, P, a[k + 1] + off, w[k]))
        if "ok" in res:
            cs.append("%d <= %d /\\ %d <= %d /\\ IsLeast(%d, %d, %d, %d, %d)" % (a[-1], lim, res["ok"], a[-1], Q, D, P, res["ok"] + off, w[-1]))
        elif "err" in res:
            cs.append("%d <= %d /\\ Sbf(%d, %d, %d, %d) < %d" % (a[-1], lim, Q, D, P, off + lim, w[-1]))
        else:
            cs.append("FALSE")
    elif e["op"] == "scale":
        if "small" not in o or "big" not in o:
            return ["FALSE"]
        sm, bg = o["small"], o["big"]
        if "panic" in sm or "hang" in sm or "panic" in bg or "hang" in bg:
            return ["FALSE"]
        if "ok" in sm:
            cs.append(("%d * %d = %d" % (i["K"], sm["ok"], bg["ok"])) if "ok" in bg else "FALSE")
        else:
            cs.append("TRUE" if "err" in bg else "FALSE")
    elif e["op"] == "time_ops":
        if "fz" not in o:
            return ["FALSE"]
        a, b, k, lst = i["a"], i["b"], i["k"], i["list"]
        B = lambda v: "TRUE" if v else "FALSE"
        cs += ["FromTimeZero(%d) = %d" % (a, o["fz"]), "SinceTimeZero(%d) = %d" % (a, o["sz"]),
               "ClosedSinceTimeZero(%d) = %d" % (a, o["csz"]), "%d + %d = %d" % (a, b, o["oadd"]),
               "%d + %d = %d" % (a, b, o["dadd"]), "%d + %d = %d" % (a, b, o["sadd"]),
               "SatSub(%d, %d) = %d" % (a, b, o["dsat"]), "SatSub(%d, %d) = %d" % (a, b, o["ssat"]),
               "%d * %d = %d" % (a, k, o["dmul"]), "%d * %d = %d" % (a, k, o["smul"]),
               "%d = %d" % (a, o["d2s"]), "%d = %d" % (a, o["s2d"]),
               "%s = %d" % (" + ".join(str(x) for x in lst), o["dsum"]), "%s = %d" % (" + ".join(str(x) for x in lst), o["ssum"]),
               "(%d > 0) = %s" % (a, B(o["nz"])), "(%d = 0) = %s" % (a, B(o["z"])), "(%d = 0) = %s" % (a, B(o["snone"])),
               "(%d < %d) = %s" % (a, b, B(o["lt"])), "(%d < %d) = %s" % (a, b, B(o["olt"])),
               # the closed and the half-open conventions are inverse to each other
               "ClosedFromTimeZero(ClosedSinceTimeZero(%d)) = %d" % (a, a)]
        cs.append(("ClosedFromTimeZero(%d) = %d" % (a, o["cfz"])) if a >= 1 else B("cfz" not in o))
        cs.append(("%d - %d = %d" % (b, a, o["dist"])) if a <= b else B("dist" not in o))
        if a >= b:
            cs += ["%d - %d = %d" % (a, b, o["dsub"]), "%d - %d = %d" % (a, b, o["ssub"])]
        if b >= 1:
            cs += ["%d \\div %d = %d" % (a, b, o["ddiv"]), "%d %% %d = %d" % (a, b, o["drem"])]
    else:
        raise ToolError("unknown large-magnitude op %s" % e["op"])
    return cs


def big_check(wd, recs, chunk=60, timeout=1500, max_rounds=3):
    """Apalache decides the closed-form relations of every record; returns (indices of refuted records, number of
    relations).  One state variable i ranges over the records of a chunk, the invariant is (i = n) => Clause_n, so
    a counterexample names a record; that record is then taken out and the chunk is checked again."""
    shutil.copy(os.path.join(SPEC, "apalache", "ClosedForms.tla"), wd)
    nclauses = 0
    bad_all = []
    for cno in range(0, len(recs), chunk):
        part = recs[cno:cno + chunk]
        live = list(range(len(part)))
        for rnd in range(max_rounds + 1):
            mod = "BigTrace%d" % (cno // chunk)
            lines = ["---- MODULE %s ----" % mod, "EXTENDS ClosedForms", "VARIABLES", "    \\* @type: Int;", "    i",
                     "Init == i \\in 1..%d" % len(part), "Next == UNCHANGED i"]
            for n, r in enumerate(part):
                cs = _big_clauses(r) if n in live else ["TRUE"]
                nclauses += len(cs) if rnd == 0 else 0
                lines.append("C%d ==\n    /\\ " % (n + 1) + "\n    /\\ ".join(cs))
            # groups of ten keep the conjunction shallow (Apalache's passes recurse over it)
            groups = []
            for g in range(0, len(part), 10):
                groups.append("G%d" % (g // 10))
                lines.append("G%d ==\n    " % (g // 10) +
                             "\n    ".join("/\\ (i = %d => C%d)" % (n + 1, n + 1) for n in range(g, min(g + 10, len(part)))))
            lines.append("Inv == " + " /\\ ".join(groups))
            lines.append("====")
            with open(os.path.join(wd, mod + ".tla"), "w") as f:
                f.write("\n".join(lines) + "\n")
            outdir = os.path.join(wd, "apalache-out")
            shutil.rmtree(outdir, ignore_errors=True)
            tmpd = os.path.join(wd, "tmp")
            os.makedirs(tmpd, exist_ok=True)
            # apalache-mc creates its java.io.tmpdir with mktemp -t (honours TMPDIR): keep that litter inside the work directory
            env = dict(os.environ, JVM_ARGS="-Xss512m -Xmx4g", TMPDIR=tmpd)
            p = subprocess.run(["timeout", str(timeout), "apalache-mc", "check", "--length=0", "--inv=Inv",
                                "--out-dir=" + outdir, mod + ".tla"], cwd=wd, env=env,
                               stdout=subprocess.PIPE, stderr=subprocess.STDOUT, text=True)
            out = p.stdout
            if p.returncode == 124:
                raise ToolError("apalache timed out on %s" % mod)
            if "The outcome is: NoError" in out:
                break
            if "The outcome is: Error" not in out:
                raise ToolError("apalache failed on %s:\n%s" % (mod, out[-3000:]))
            bad = None
            for root, _, files in os.walk(outdir):
                for fn in files:
                    if fn.startswith("violation") and fn.endswith(".tla"):
                        m = re.search(r"State0 ==\s*i = (\d+)", open(os.path.join(root, fn)).read())
                        if m:
                            bad = int(m.group(1)) - 1
            if bad is None or bad not in live:
                raise ToolError("cannot attribute the Apalache counterexample:\n" + out[-3000:])
            live.remove(bad)
            bad_all.append(cno + bad)
            if rnd == max_rounds:
                log("more than %d violating records in one chunk; the rest of it was not examined" % max_rounds)
                break
        shutil.rmtree(outdir, ignore_errors=True)
        shutil.rmtree(os.path.join(wd, "tmp"), ignore_errors=True)
    return bad_all, nclauses


def bigtrace_stage(run, name, driver, extra=None, chunk=60, timeout=1500, max_rounds=3):
    """Large-magnitude trace validation: values recorded from the library at arguments far beyond 2^32 / 2^53
    are written into generated TLA+ modules as integer literals and Apalache (unbounded integers, Z3) checks the
    closed-form relations of ClosedForms.tla for every record (big_check)."""
    wd = run.sub(name)
    path = os.path.join(wd, "events.ndjson")
    run_driver(driver, path, run.tier, run.seed, extra=extra)
    recs = read_events(path)
    if not recs:
        raise ToolError("driver %s produced no events" % driver)
    for r in recs:
        run.count(r["in"], True)
    for r in recs[:2]:
        run.sample({"op": r["op"], "in": r["in"], "out": r["out"]})
    bad, nclauses = big_check(wd, recs, chunk=chunk, timeout=timeout, max_rounds=max_rounds)
    for b in bad:
        r = recs[b]
        run.fail(dict(stage=name, op=r["op"], check="closed_form_at_large_magnitude", record=r,
                      detail="Apalache refutes: " + " /\\ ".join(_big_clauses(r))[:1500], tags=[]))
    run.cov["traces_validated_against_impl"] += len(recs)
    run.cov.setdefault("obligations", 0)
    run.cov["obligations"] += nclauses
    run.stage(name, kind="large-magnitude-trace-validation", tool="apalache-mc 0.58 (Z3)", driver=driver, records=len(recs),
              relations=nclauses, refuted=len(bad))
    return recs


def apalache_stage(run, name, spec, invariants, timeout=900):
    """Unbounded design-level obligations discharged symbolically by Apalache (state invariants at length 0 over an
    arbitrary parameter valuation).  Any outcome other than NoError for an obligation fails the run."""
    wd = run.sub(name)
    ok_all = True
    done = []
    for inv in invariants:
        cmd = ["timeout", str(timeout), "apalache-mc", "check", "--length=0", "--inv=" + inv,
               "--out-dir=" + os.path.join(wd, "apalache-out"), spec]
        tmpd = os.path.join(wd, "tmp")
        os.makedirs(tmpd, exist_ok=True)
        p = subprocess.run(cmd, cwd=os.path.join(SPEC, "apalache"), stdout=subprocess.PIPE, stderr=subprocess.STDOUT, text=True,
                           env=dict(os.environ, TMPDIR=tmpd))
        out = p.stdout
        if p.returncode == 124:
            raise ToolError("apalache timed out on %s / %s" % (spec, inv))
        if "The outcome is: NoError" in out:
            done.append(inv)
        elif "The outcome is: Error" in out:
            ok_all = False
            run.fail(dict(stage=name, op=spec, check=inv, record={"spec": spec, "invariant": inv},
                          detail="Apalache found a counterexample to a design-level obligation", trace=out[-3000:]))
        else:
            raise ToolError("apalache failed on %s / %s:\n%s" % (spec, inv, out[-3000:]))
    shutil.rmtree(os.path.join(wd, "apalache-out"), ignore_errors=True)
    shutil.rmtree(os.path.join(wd, "tmp"), ignore_errors=True)
    run.cov.setdefault("obligations", 0)
    run.cov.setdefault("discharged", 0)
    run.cov["obligations"] += len(invariants)
    run.cov["discharged"] += len(done)
    run.stage(name, kind="symbolic-obligations", tool="apalache-mc 0.58 (Z3)", spec=spec, obligations=invariants, discharged=done)
    return ok_all
