"""Per-property pipelines (DESIGN.md §4)."""
import glob
import json
import os

import vflib
from vflib import trace_stage, world_stage, mc_stage, apalache_stage, bigtrace_stage, log

CHECKS = {}
LEVELS = {}


def check(prop, level="model_checking"):
    def deco(f):
        CHECKS[prop] = f
        LEVELS[prop] = level
        return f
    return deco


def setup():
    vflib.build_harness("dev")
    vflib.build_harness("release")
    # parse every specification module once
    bad = 0
    for d in ("", "trace", "mc", "apalache"):
        for p in sorted(glob.glob(os.path.join(vflib.SPEC, d, "*.tla"))):
            r = vflib.sh(["java", "-DTLA-Library=" + vflib.SPEC + ":" + os.path.join(vflib.SPEC, "trace") + ":" +
                          os.path.join(vflib.SPEC, "mc"), "-cp", vflib.JARS, "tla2sany.SANY", p],
                         cwd=os.path.dirname(p), check=False)
            if "Semantic errors" in r.stdout or "Parse Error" in r.stdout or r.returncode != 0 and "error" in r.stdout.lower():
                log("SANY failed on " + p + "\n" + r.stdout[-2000:])
                bad += 1
    log("setup done, %d spec parse failures" % bad)
    return 2 if bad else 0


WORLD_SPECS = (("tasks", "MCSched", ("id", "policy", "tasks", "supply")), ("cbs", "MCRos2Exec", ("id", "supply", "cbs")),
               ("gens", "MCArrivalProc", ("id", "gens", "eta")), ("sbf", "MCReservation", ("id", "Q", "D", "P", "sbf")))


def replay(path):
    """Re-evaluates the failing records of a replay file with TLC: independent records through TraceLib (prints the
    failed named checks), world-model records through their world model (prints TLC's counterexample schedule)."""
    with open(path) as f:
        rp = json.load(f)
    wd = os.path.join(vflib.WORK, "replay")
    import shutil
    shutil.rmtree(wd, ignore_errors=True)
    os.makedirs(wd)
    print("replay of %s: property %s, tier %s, seed %s, %d failure(s) recorded" % (
        path, rp["property"], rp["tier"], rp["seed"], rp["n_failures"]))
    big = [f for f in rp["failures"] if isinstance(f.get("record"), dict)
           and (str(f["record"].get("op", "")).startswith("big_") or f["record"].get("op") in ("scale", "time_ops"))]
    if big:
        # large-magnitude records: Apalache re-decides the closed-form relations of each record on its own
        recs = []
        for fl in big:
            if fl["record"] not in recs:
                recs.append(fl["record"])
        sub = os.path.join(wd, "big")
        os.makedirs(sub)
        bad, nrel = vflib.big_check(sub, recs, chunk=1, max_rounds=1)
        for i, r in enumerate(recs):
            print("  record %d (op %s) is %s by Apalache (ClosedForms.tla)" % (i + 1, r["op"], "refuted again" if i in bad else "accepted"))
            print("    input: " + vflib.canon(vflib.shorten(r.get("in"), 1500)))
            print("    recorded outcome: " + vflib.canon(vflib.shorten(r.get("out"), 900)))
        print("  %d of %d large-magnitude records refuted again (%d relations)" % (len(bad), len(recs), nrel))
    indep = [f for f in rp["failures"] if isinstance(f.get("record"), dict) and "in" in f["record"] and "out" in f["record"]
             and f["record"].get("op") != "total" and f not in big]
    if indep:
        tr = os.path.join(wd, "trace.ndjson")
        seen = []
        with open(tr, "w") as f:
            for fl in indep:
                if fl["record"] not in seen:
                    seen.append(fl["record"])
                    f.write(json.dumps(fl["record"]) + "\n")
        res = vflib.tlc_trace(os.path.join(vflib.SPEC, "trace"), "TraceLib.tla", "TraceLib.cfg", tr, wd)
        for gl, op, checks in res["rejects"]:
            print("  record %d (op %s) is rejected by TraceLib: failed checks %s" % (gl, op, checks))
            print("    input: " + vflib.canon(vflib.shorten(seen[gl - 1].get("in"), 1500)))
            print("    recorded outcome: " + vflib.canon(vflib.shorten(seen[gl - 1].get("out"), 600)))
        print("  %d of %d records rejected again" % (len(res["rejects"]), len(seen)))
    for fl in rp["failures"]:
        rec = fl.get("record")
        if not isinstance(rec, dict):
            continue
        for key, spec, slim in WORLD_SPECS:
            if key in rec and "in" not in rec:
                sl = {k: rec[k] for k in slim if k in rec}
                if isinstance(sl.get("supply"), dict) and sl["supply"].get("k") == "periodic":
                    sl["supply"] = dict(sl["supply"], D=sl["supply"]["P"])
                b = os.path.join(wd, "one.ndjson")
                with open(b, "w") as f:
                    f.write(json.dumps(sl) + "\n")
                cfgs = spec + ("Witness.cfg" if fl.get("check") == "Attained" and spec == "MCSched" else ".cfg")
                rc, out = vflib.tlc_mc(os.path.join(vflib.SPEC, "mc"), spec + ".tla", cfgs, wd, "replay",
                                       env_extra={"BATCH": b, "TRACKFIN": "1"}, timeout=900)
                v = vflib.parse_violation(out)
                print("  system %s (%s, check %s):" % (rec.get("id"), spec, fl.get("check")))
                if v:
                    print("    invariant %s violated; counterexample:\n%s" % (v[0], v[2]))
                else:
                    wit = [ln for ln in out.splitlines() if "WITNESS" in ln]
                    print("    no invariant violated on re-exploration; witnesses reached: %s" % sorted(set(wit))[:20])
                break
    other = [f for f in rp["failures"] if f not in indep and f not in big
             and not any(k in (f.get("record") or {}) for k, _, _ in WORLD_SPECS)]
    for fl in other[:10]:
        print("  stage %s op %s check %s: %s" % (fl.get("stage"), fl.get("op"), fl.get("check"),
                                              vflib.canon(vflib.shorten(fl.get("record"), 1500))))
    return 0


def _corrupt(e):
    """family-specific corruption of ONE recorded field; returns the corrupted event or None if not applicable"""
    import copy
    c = copy.deepcopy(e)
    op, o = c.get("op"), c.get("out", {})
    if op in ("rta", "search") or (op or "").startswith("ros2_"):
        if "ok" in o:
            o["ok"] = o["ok"] + 1
        elif "err" in o:
            c["out"] = {"ok": c["in"]["lim"]}
        else:
            return None
    elif op == "eta" and "eta" in o and len(o["eta"]) > 3 and o["eta"][-1] > 0 and c["in"]["m"]["k"] in ("periodic", "sporadic"):
        o["eta"][-1] -= 1
    elif op == "steps" and len(o.get("items", [])) > 2:
        del o["items"][1]
    elif op == "sbf" and "sbf" in o:
        o["sbf"][-1] += 1
    elif op == "cost" and len(o.get("cost", [])) > 2:
        o["cost"][2] += 1
    elif op == "demand" and "sn" in o and o["sn"][-1] > 0:
        o["sn"][-1] -= 1
    elif op == "curve_trace" and "eta" in o and len(o["eta"]) > 2:
        o["eta"][1] = 0
    elif op == "derive" and "der" in o and o["der"][-1] > 0:
        o["der"][-1] = 0
    elif op == "curve_ext" and "ext" in o and len(o["ext"]) > 2:
        o["ext"][1] += 1
    elif op == "agree" and "rs" in o and "ok" in o["rs"][0]:
        o["rs"][0]["ok"] += 1
    elif op == "poisson" and len(o.get("n", [])) > 1:
        o["n"][-1] += 40
    else:
        return None
    return c


def selftest(args):
    """Binding demonstration (not a registered check): corrupt one recorded field in every k-th event of each family and
    require TLC to reject exactly those lines; lower / raise one claimed bound of a world-model batch and require a
    Safe violation / a missing witness."""
    import random
    wd = os.path.join(vflib.WORK, "selftest")
    import shutil
    shutil.rmtree(wd, ignore_errors=True)
    os.makedirs(wd)
    rnd = random.Random(1)
    ok = True
    for drv in ["supply", "eta", "steps", "cost", "demand", "search", "rta", "ros2", "c12", "c13", "agree", "poisson"]:
        tr = os.path.join(wd, drv + ".ndjson")
        vflib.run_driver(drv, tr, "quick", 1)
        evs = vflib.read_events(tr)
        rnd.shuffle(evs)
        evs = evs[:240]
        sub = os.path.join(wd, drv)
        os.makedirs(sub)
        base = vflib.tlc_trace(os.path.join(vflib.SPEC, "trace"), "TraceLib.tla", "TraceLib.cfg", _write(sub, "base.ndjson", evs), sub)
        base_rej = {gl for gl, _, _ in base["rejects"]}
        corrupted, idx = [], set()
        for i, e in enumerate(evs):
            c = _corrupt(e) if i % 6 == 0 and (i + 1) not in base_rej else None
            if c is not None:
                idx.add(i + 1)
                corrupted.append(c)
            else:
                corrupted.append(e)
        res = vflib.tlc_trace(os.path.join(vflib.SPEC, "trace"), "TraceLib.tla", "TraceLib.cfg", _write(sub, "corrupt.ndjson", corrupted), sub)
        rej = {gl for gl, _, _ in res["rejects"]}
        missed = idx - rej
        spurious = rej - idx - base_rej
        log("selftest %-8s: %3d events, %2d corrupted, %2d of them rejected, %d missed, %d spurious" % (
            drv, len(evs), len(idx), len(idx & rej), len(missed), len(spurious)))
        if missed or spurious or not idx:
            ok = False
            for m in sorted(missed)[:3]:
                log("   not rejected: " + vflib.canon(vflib.shorten(corrupted[m - 1], 500)))
    # large magnitudes (Apalache as the trace checker): one recorded value changed by one in every fifth record
    tr = os.path.join(wd, "big.ndjson")
    vflib.run_driver("big", tr, "quick", 1)
    evs = vflib.read_events(tr)[:40]
    idx = set()
    for i, e in enumerate(evs):
        if i % 5 == 0:
            key = "sbf" if e["op"] == "big_supply" else "eta"
            e["out"][key][-1] += 1
            idx.add(i)
    sub = os.path.join(wd, "big")
    os.makedirs(sub)
    bad, _ = vflib.big_check(sub, evs, chunk=10, max_rounds=4)
    log("selftest big     : %3d records, %2d corrupted, %2d of them refuted by Apalache, %d missed, %d spurious" % (
        len(evs), len(idx), len(idx & set(bad)), len(idx - set(bad)), len(set(bad) - idx)))
    if set(bad) != idx:
        ok = False
    # world models: a claim lowered by one must be refuted (Safe), a claim raised by one must lose its witness (C18)
    for fam, spec, cfgf, slim, key, extra in (("systems", "MCSched.tla", "MCSched.cfg", ("id", "policy", "tasks", "supply"), "tasks",
                                               ["--families", "fp,fifo", "--exact", "1", "--nsys", "30", "--no-core", "1"]),
                                              ("ros2sys", "MCRos2Exec.tla", "MCRos2Exec.cfg", ("id", "supply", "cbs"), "cbs",
                                               ["--family", "ecrts19", "--nsys", "150"])):
        b = os.path.join(wd, fam + ".ndjson")
        vflib.run_driver(fam, b, "quick", 1, extra=extra)
        recs = [r for r in vflib.read_events(b) if r.get("nontrivial")][:12]
        caught = 0
        for r in recs:
            r2 = json.loads(json.dumps({k: r[k] for k in slim}))
            if isinstance(r2.get("supply"), dict) and r2["supply"].get("k") == "periodic":
                r2["supply"]["D"] = r2["supply"]["P"]
            cands = [t for t in r2[key] if t["R"] > t["C"]]
            t = cands[0]
            same = [x for x in r2[key] if x["R"] == t["R"]] if fam == "ros2sys" or r2.get("policy") == "fifo" else [t]
            for x in same:
                x["R"] -= 1
            one = _write(wd, "one.ndjson", [r2])
            rc, out = vflib.tlc_mc(os.path.join(vflib.SPEC, "mc"), spec, cfgf, wd, "selftest", env_extra={"BATCH": one, "TRACKFIN": "0"}, timeout=600)
            if vflib.parse_violation(out):
                caught += 1
        log("selftest %-8s: %d of %d bounds lowered by one are refuted by the world model" % (fam, caught, len(recs)))
        if fam == "systems":
            if caught < len(recs):
                ok = False      # these bounds are tight (C18), so every one of them must be refuted
        elif caught == 0:
            ok = False
    log("selftest " + ("passed" if ok else "FAILED"))
    return 0 if ok else 1


def _write(d, name, evs):
    p = os.path.join(d, name)
    with open(p, "w") as f:
        for e in evs:
            f.write(json.dumps(e) + "\n")
    return p


# ---------------------------------------------------------------------------
@check("C09")
def c09(run):
    run.cov["rule"] = ("sbf events: one per (budget, deadline, period) triple -- all triples with period <= 14 "
                       "(thorough: 40) plus seeded random larger ones; non-trivial = budget < period (a real gap exists); "
                       "distinct = canonical JSON of the supply description")
    run.assumptions += ["closed form of Supply.tla is tied to all budget placements by Reservation.tla (MCReservation)",
                        "TLC integers are 32-bit: periods explored <= 400"]
    trace_stage(run, "sbf-tables", "supply",
                nontrivial=lambda e: e["in"]["supply"].get("Q", 1) < e["in"]["supply"].get("P", 1),
                keyfn=lambda e: (e["op"], e["in"]["supply"]))
    # R3: the trait's default service_time as a machine (start at the demand, jump ahead by the missing service) returns the
    # least sufficient window for every 1-Lipschitz supply of a small family and terminates; the runs the implementation
    # really makes (op inverse_trace of the stage above: a supply that logs what it is asked) are runs of that machine
    mc_stage(run, "default-inverse-machine", "MCDefaultInverse.tla", "MCDefaultInverse.cfg", workers=4)
    # unbounded, symbolic: the closed form is 0 at 0 / monotone / 1-Lipschitz, the library's arithmetic (transcribed) equals it,
    # the specialised service_time formulas are its exact inverse, deadline = period and budget = period degenerate as stated
    apalache_stage(run, "unbounded-obligations", "SupplyProofs.tla", ["Shape", "LibAgrees", "Equivalences", "Inverse"])
    # large magnitudes (periods and windows up to 2^60, far beyond TLC's integers and beyond 2^53 where floating-point
    # shortcuts stop being exact): recorded values against the closed form, decided by Apalache over unbounded integers
    bigtrace_stage(run, "large-magnitudes", "big", extra=["--only", "supply"])
    # R1: every placement of the budget (reservation automaton), every window position and length:
    # never less service than the recorded table claims, and the table is attained at every length
    world_stage(run, "placements", "resv", "MCReservation.tla", "MCReservation.cfg", slim=("id", "Q", "D", "P", "sbf"),
                witness=lambda r: [["%d %d" % (r["id"], x)] for x in range(len(r["sbf"]))])


def _tagged(e, *tags):
    t = e.get("in", {}).get("tags", [])
    return any(x in t for x in tags)


@check("C10")
def c10(run):
    run.cov["rule"] = ("eta events: number_arrivals tables on 0..H for every Periodic (T<=6, thorough 12), Sporadic (J<=2T+2), "
                       "all delta-min prefixes of length<=3 with entries<=6 (plain and auto-extrapolating), their Propagated / "
                       "clone_with_jitter images, plus seeded random compositions of depth<=2; non-trivial = the table is not constant; "
                       "distinct = canonical JSON of the model description")
    run.assumptions += ["Eta of Arrival.tla is tied to explicit event generators by MCArrivalProc (R1)",
                        "window lengths explored <= 260"]
    trace_stage(run, "eta-tables", "eta",
                nontrivial=lambda e: "eta" in e["out"] and len(set(e["out"]["eta"])) > 2,
                keyfn=lambda e: e["in"].get("m"))
    # unbounded, symbolic: the Periodic / Sporadic closed form is 0 at 0, monotone, sub-additive, monotone in the jitter,
    # and delaying by j2 equals observing a window longer by j2
    apalache_stage(run, "unbounded-obligations", "ArrivalProofs.tla", ["Shape", "SubAdditive", "Jitter"])
    # periods, jitters and windows up to 2^59 (beyond TLC's integers and beyond 2^53): recorded number_arrivals / steps /
    # scalar request bound against the closed form, decided by Apalache over unbounded integers
    bigtrace_stage(run, "large-magnitudes", "big", extra=["--only", "eta"])
    # R1: explicit event generators (arrivals >= T apart + per-event delay; delta-min prefixes; delayed copies;
    # superposition), every window position and length: never more events than the recorded table claims;
    # for Periodic / Sporadic the table is attained at every window length
    world_stage(run, "event-generators", "procs", "MCArrivalProc.tla", "MCArrivalProc.cfg", slim=("id", "gens", "eta"),
                witness=lambda r: ([["%d %d" % (r["id"], x)] for x in range(1, len(r["eta"]))] if r.get("attained") else []))


@check("C11")
def c11(run):
    run.cov["rule"] = ("steps events: raw items of steps_iter (until the first item > H) and the table of the same object on 0..H, "
                       "for arrival bounds and request bounds: enumerated Periodic/Sporadic (jitter up to 3T+1), pairs of components with "
                       "common steps, all prefixes of length<=3, plus seeded random nested compositions / conversions; "
                       "non-trivial = at least 3 increase points within H; distinct = canonical JSON of the description")
    trace_stage(run, "steps", "steps",
                nontrivial=lambda e: "tbl" in e["out"] and len(set(e["out"]["tbl"])) > 3,
                keyfn=lambda e: e["in"].get("m") or e["in"].get("dm"))
    _c11_symbolic(run)


def _c11_symbolic(run):
    # unbounded, symbolic: the closed-form steps of Sporadic / Periodic are exactly the increase points of the closed-form bound
    apalache_stage(run, "unbounded-obligations", "ArrivalProofs.tla", ["StepsExact", "NextStepExact"])
    bigtrace_stage(run, "large-magnitudes", "big", extra=["--only", "eta"])
    # the discrete time model underneath (src/time.rs: open / closed interval conventions that turn a step delta into the
    # offset delta - 1, saturating subtraction, scaling, sums), every operator on small and on large values
    bigtrace_stage(run, "time-model", "timeops")


@check("C16")
def c16(run):
    run.cov["rule"] = ("demand events: one per node of seeded random request-bound trees (RBF leaves over every arrival x cost kind, "
                       "Aggregate / Slice / Box / Rc / & nesting up to depth 2): tables of service_needed, job_cost_iter sums, "
                       "least_wcet_in_interval, service_needed_by_n_jobs (n<=8) and the per-component variant; "
                       "non-trivial = demand table not constant; distinct = canonical JSON of the subtree")
    trace_stage(run, "demand", "demand",
                nontrivial=lambda e: "sn" in e["out"] and len(set(e["out"]["sn"])) > 2,
                keyfn=lambda e: e["in"].get("dm"))


@check("C14")
def c14(run):
    run.cov["rule"] = ("cost events: tables of cost_of_jobs / job_cost_iter / least_wcet for every Scalar, every Multiframe vector of "
                       "length<=3 over 1..4, random cumulative prefixes (plain and caching); cost_trace events: Curve::from_trace for "
                       "every cost trace of length<=5 over 1..3 (thorough: 7) x every max_n, checked against every run of n consecutive "
                       "trace entries for n up to the trace length; cost_ext: extrapolate on prefixes; non-trivial = table has >= 3 "
                       "distinct values; distinct = canonical JSON of the input")
    trace_stage(run, "cost-tables", "cost",
                nontrivial=lambda e: "cost" in e["out"] and len(set(e["out"]["cost"])) > 2)
    trace_stage(run, "cost-traces", "cost_trace",
                nontrivial=lambda e: ("cost" in e["out"] and len(set(e["out"]["cost"])) > 2) or "ext" in e["out"])
    _from_trace_stage(run, "wcet", "cost_trace",
                      lambda e: "cost" in e["out"] and len(set(e["out"]["cost"])) > 2)
    _cache_stage(run, "wcet")


@check("C08")
def c08(run):
    run.cov["rule"] = ("search events: search / search_with_offset on table-defined monotone workloads: every monotone w:1..4->0..4 "
                       "(thorough 1..5->0..5) x dedicated / periodic / constrained (P<=3, thorough 4) / two user staircases x specialised "
                       "and default service_time x in-window offsets 0..4 x limits {1,2,3,5,8,13}, plus seeded random tables of length<=60; "
                       "search_trace events: the same calls with a workload closure that logs every interval length it is asked about -- the recorded "
                       "iteration must be a run of the machine of MCFixedPoint; "
                       "maxrt events: max_response_time on every sequence of length<=4 over 3 Ok values and 2 errors; "
                       "non-trivial = the workload is positive somewhere (demand exists); distinct = canonical JSON of the input")
    run.assumptions += ["offsets are inside the busy window (premise of C08)", "supplies are 1-Lipschitz with sbf(0)=0"]
    trace_stage(run, "search", "search",
                nontrivial=lambda e: e["op"] == "maxrt" or max(e["in"]["w"]) > 0)
    # R3: the iteration of the implementation, as a state machine, computes Lfp (and terminates)
    mc_stage(run, "kleene-iteration", "MCFixedPoint.tla", "MCFixedPoint.cfg")
    # the same machine at magnitudes of 2^32..2^58: the workload closure logs what it is asked and what it answers; every
    # recorded iteration must be a run of the machine (each iterate the exact supply inverse of the workload, stop with Ok at
    # the first non-increase, with Err only beyond the limit), decided by Apalache with the closed forms of ClosedForms.tla
    bigtrace_stage(run, "large-magnitude-iterations", "bigsearch")


@check("C06")
def c06(run):
    run.cov["rule"] = ("rta events: each of the nine dedicated-processor analyses on (a) every ordered pair of tasks from the box "
                       "T<=4, C<=2, J in {0,1,T+1} with two limits each out of {3,7,14,30} and (b) seeded random 1-4-task inputs with "
                       "jitter, bursty curves (plain / extrapolating / propagated / sums / conversions), non-scalar cost models where the "
                       "API allows, blocking bounds, segment parameters and limits drawn around the busy-window length; "
                       "non-trivial = the recorded outcome is neither Ok(0) nor Ok(own WCET); distinct = canonical JSON of the input")
    run.assumptions += ["definitional evaluation uses the request-bound tables recorded from the very objects passed to the analysis"]
    trace_stage(run, "rta", "rta",
                nontrivial=lambda e: e["out"].get("ok", -1) not in (0, e["in"]["tua"].get("C", -2)),
                keyfn=lambda e: {k: v for k, v in e["in"].items() if k != "tags"})
    # the scenarios of the repository's own unit tests (horizons <= 1000) with the values pinned there: the library, the
    # pinned value and the defining equations of the specification must all coincide (a check of the specification too)
    trace_stage(run, "suite-scenarios", "suite", extra=["--only", "rta"],
                nontrivial=lambda e: e["out"].get("ok", -1) not in (0, e["in"]["tua"].get("C", -2)),
                keyfn=lambda e: {k: v for k, v in e["in"].items() if k != "tags"})
    _scaled_systems(run)


def _scaled_systems(run):
    """Large magnitudes for the analyses themselves.  R3: the defining equations of the preemptive / non-preemptive /
    floating FP analyses, of preemptive EDF and of FIFO are homogeneous (MCAnalyses, invariant Homogeneous, K = 2, 3 on
    41 472 configurations).  Hence the bound of a system scaled by an odd K between 2^40 and 2^55 must be K times the bound of the small
    system: the small system is validated equationally by TLC, the relation by Apalache over unbounded integers."""
    mc_stage(run, "homogeneity", "MCAnalyses.tla", "MCAnalysesHomog.cfg", workers=16)
    wd = run.sub("scaled-systems")
    path = os.path.join(wd, "events.ndjson")
    vflib.run_driver("scale", path, run.tier, run.seed)
    evs = vflib.read_events(path)
    small = os.path.join(wd, "small.ndjson")
    with open(small, "w") as f:
        for e in evs:
            if e["op"] == "rta":
                f.write(json.dumps(e) + "\n")
    trace_stage(run, "scaled-systems-small", "scale", trace_path=small,
                nontrivial=lambda e: e["out"].get("ok", -1) not in (0, e["in"]["tua"].get("C", -2)),
                keyfn=lambda e: {k: v for k, v in e["in"].items() if k != "tags"})
    pairs = [e for e in evs if e["op"] == "scale"]
    for e in pairs:
        run.count({"policy": e["in"]["policy"], "K": e["in"]["K"], "small": e["in"]["small"]}, "ok" in e["out"].get("small", {}))
    bad, nrel = vflib.big_check(wd, pairs, chunk=200)
    for b in bad:
        r = pairs[b]
        run.fail(dict(stage="scaled-systems", op="scale", check="bound_scales_with_the_system", record=r,
                      detail="small %s, K = %d, big %s" % (r["out"].get("small"), r["in"]["K"], r["out"].get("big")), tags=[]))
    run.cov["traces_validated_against_impl"] += len(pairs)
    run.stage("scaled-systems", kind="large-magnitude-trace-validation", tool="apalache-mc 0.58 (Z3)", driver="scale",
              pairs=len(pairs), refuted=len(bad))


SCHED_RULE = ("systems: task sets (2-3 tasks, thorough 2-4; periodic / sporadic+jitter / delta-min-prefix arrivals, T<=7 (10), C<=3 (4), "
              "random priorities incl. ties, deadlines up to 2T+2, random segment layouts and floating-region lengths) x preemption "
              "variant; each task's bound is obtained from the real analysis with the inputs the property prescribes; TLC explores every "
              "schedule (all curve-compliant releases, execution times 1..C, region placements, tie-breaks; unbounded time) of every "
              "system; non-trivial = some claimed bound exceeds the task's own WCET; distinct = canonical JSON of the system")
SCHED_ASSUME = ["scheduler semantics of spec/Sched.tla (discrete time, work-conserving, policy re-evaluated at preemption points)",
                "tasks without a claim (analysis returned Err) do not age and hold at most one pending job",
                "LP jobs execute every segment (length 1..bound); execution times 1..C otherwise",
                "magnitudes: periods <= 10, bounds <= 22 (45), total backlog <= 5 (7) jobs, estimated state count per system <= 1.5e6 (6e6); "
                "systems beyond these budgets are not generated"]


def _nsys(run, q, t):
    return str(t if run.tier == "thorough" else q)


def _equational(run, policies, scale="1"):
    """second, independent path (DESIGN.md §4 C01): the same analyses against their definitional evaluation"""
    run.assumptions.append("second stage: trace validation of the same analyses against Analyses.tla (as in C06)")
    # a panic is "no claim" for a safety property (C20 owns panics)
    trace_stage(run, "equational", "rta", extra=["--policies", policies, "--scale", scale], ignore_checks=("returns",),
                nontrivial=lambda e: e["out"].get("ok", -1) not in (0, e["in"]["tua"].get("C", -2)),
                keyfn=lambda e: {k: v for k, v in e["in"].items() if k != "tags"})


@check("C01")
def c01(run):
    run.cov["rule"] = SCHED_RULE
    run.assumptions += SCHED_ASSUME
    world_stage(run, "fp-schedules", "systems", "MCSched.tla", "MCSched.cfg",
                extra=["--families", "fp", "--nsys", _nsys(run, 150, 500)])
    _equational(run, "fp_p,fp_np,fp_lp,fp_fnp")


@check("C02")
def c02(run):
    run.cov["rule"] = SCHED_RULE
    run.assumptions += SCHED_ASSUME
    world_stage(run, "edf-schedules", "systems", "MCSched.tla", "MCSched.cfg",
                extra=["--families", "edf", "--nsys", _nsys(run, 500, 4000)])
    _equational(run, "edf_p,edf_np,edf_lp,edf_fnp", scale="3")


@check("C03")
def c03(run):
    run.cov["rule"] = SCHED_RULE
    run.assumptions += SCHED_ASSUME
    world_stage(run, "fifo-schedules", "systems", "MCSched.tla", "MCSched.cfg",
                extra=["--families", "fifo", "--nsys", _nsys(run, 2500, 20000)])
    _equational(run, "fifo", scale="4")


@check("C18")
def c18(run):
    run.cov["rule"] = ("systems as in C01/C03 restricted to exact realisable arrival models (periodic, sporadic+jitter, auto-extrapolating "
                       "super-additive delta-min prefixes) and to the fully preemptive FP, non-preemptive FP and FIFO analyses; TLC explores "
                       "every schedule and a witness state (a job completing with response time = bound) must be reached for every claimed "
                       "task (FIFO: for some task); non-trivial = some bound exceeds the own WCET; distinct = canonical JSON of the system")
    run.assumptions += SCHED_ASSUME

    def alts(r):
        keys = ["%d %d" % (r["id"], i + 1) for i, t in enumerate(r["tasks"]) if t["R"] >= 0]
        return [keys] if r["policy"] == "fifo" else [[k] for k in keys]
    world_stage(run, "attained", "systems", "MCSched.tla", "MCSchedWitness.cfg", witness=alts,
                extra=["--families", "fp,fifo", "--exact", "1", "--nsys", _nsys(run, 260, 1500)])


@check("C19")
def c19(run):
    run.cov["rule"] = ("agree events: seeded random systems (1-4 tasks, jitter, bursts, blocking, limits 1..70 (200)), one of seven "
                       "families per system: LP(last=1,B=0)=P, LP(last=C,B)=NP(B), FNP(B)=LP(last=1,B), the three EDF analogues, and "
                       "equal deadlines => max NP-EDF = FIFO; later stages: ROS 2 supply equivalences and event source = FIFO; "
                       "non-trivial = not all results are Ok(0)/Ok(C); distinct = canonical JSON of the calls")
    def nontriv(e):
        rs = e["out"].get("rs") or ([e["out"].get("fifo")] + e["out"].get("np", []))
        return any(r and r.get("ok", -1) not in (0, 1) for r in rs)
    trace_stage(run, "agree", "agree", nontrivial=nontriv, ignore_checks=("returns",))
    trace_stage(run, "agree-ros2", "agree_ros2", nontrivial=nontriv, ignore_checks=("returns",))
    # R3: the same relations hold for the definitional evaluators on a box of 41 472 two-task configurations
    mc_stage(run, "definitional-relations", "MCAnalyses.tla", "MCAnalysesAgree.cfg", workers=8)


@check("C17")
def c17(run):
    run.cov["rule"] = ("hardening walks: 3500 (thorough 30000) seeded random base systems (1-3 tasks, scalar costs, jitter / bursty curves), "
                       "each followed by up to 6 single-parameter steps (WCET+1, jitter+, period-1, blocking+, interfering NP segment+1, "
                       "task added, limit raised); after every step all nine dedicated-processor analyses are re-run; the recorded walk "
                       "is replayed through the Mono state machine of TraceHarden.tla; later stage: the same for the ROS 2 analyses incl. "
                       "supply weakening; non-trivial = a harden/raise step in which some result differs from Ok(0); distinct = canonical JSON")
    run.assumptions += ["the task-under-analysis' own last non-preemptive segment is not a hardening (a longer final segment protects the job)"]
    trace_stage(run, "walks", "harden", spec="TraceHarden.tla", cfg="TraceHarden.cfg",
                session_key=lambda ln: '"op":"reset"' in ln,
                nontrivial=lambda e: e["op"] != "reset" and any(r.get("ok", 1) != 0 for r in e["res"].values()),
                keyfn=lambda e: {"sys": e["sys"], "op": e["op"]})
    # R3: monotonicity of the definitional evaluators on a box of 41 472 two-task configurations
    mc_stage(run, "definitional-monotonicity", "MCAnalyses.tla", "MCAnalysesMono.cfg", workers=8)
    trace_stage(run, "walks-ros2", "harden_ros2", spec="TraceHarden.tla", cfg="TraceHarden.cfg",
                session_key=lambda ln: '"op":"reset"' in ln,
                nontrivial=lambda e: e["op"] != "reset" and any(r.get("ok", 1) != 0 for r in e["res"].values()),
                keyfn=lambda e: {"sys": e["sys"], "op": e["op"]})


@check("C07")
def c07(run):
    run.cov["rule"] = ("ros2 events: seeded random inputs to the six ROS 2 analyses: event source / timer / polling-point callback / chain "
                       "over nested request bounds (all arrival and cost kinds), rr and bw subchains over 1-4 callbacks of all four kinds "
                       "with known / unknown priorities, assumed bounds WCET..WCET+20, singleton and multi-callback subchains, "
                       "Scalar / Multiframe / Curve costs, dedicated / periodic / constrained supplies (P<=6, thorough 10), limits 1..50 (120); 15000 (90000) events; "
                       "non-trivial = outcome is not Ok(0); distinct = canonical JSON of the input")
    run.assumptions += ["definitional evaluation over the demand / arrival / cost tables recorded from the objects passed to the analysis",
                        "supply-bound function from Supply.tla (reservation parameters alone)"]
    trace_stage(run, "ros2", "ros2", nontrivial=lambda e: e["out"].get("ok", -1) != 0,
                keyfn=lambda e: {k: v for k, v in e["in"].items() if k != "tags"})
    # the ROS 2 scenarios of the repository's own unit tests with the values pinned there (see C06)
    trace_stage(run, "suite-scenarios", "suite", extra=["--only", "ros2"], nontrivial=lambda e: e["out"].get("ok", -1) != 0,
                keyfn=lambda e: {k: v for k, v in e["in"].items() if k != "tags"})


ROS_ASSUME = ["executor semantics A1-A5 of spec/Ros2Exec.tla (timers live and first, ready set refreshed only when empty, non-preemptive "
              "callbacks, successor activated at completion, reservation: exactly Q units per period before the deadline, any placement)",
              "callbacks without a claim do not age and hold at most one pending instance",
              "magnitudes: periods <= 7 (9), WCET <= 2 (3), reservation period <= 4 (6), bounds <= 22 (40)"]


def _ros_equational(run, kinds):
    """second, independent path: the same analyses against their definitional evaluation (as in C07)"""
    run.assumptions.append("second stage: trace validation of the same analyses against Ros2Analyses.tla (as in C07)")
    trace_stage(run, "equational", "ros2", extra=["--kinds", kinds], ignore_checks=("returns",),
                nontrivial=lambda e: e["out"].get("ok", -1) != 0,
                keyfn=lambda e: {k: v for k, v in e["in"].items() if k != "tags"})


@check("C04")
def c04(run):
    run.cov["rule"] = ("workloads: 0-2 timers, 1-2 polled callbacks and (half of the time) one chain of 2 (thorough 2-3) polled callbacks, "
                       "random polled priority order, periodic / sporadic+jitter / delta-min arrivals, dedicated / periodic / constrained "
                       "reservations; bounds from rta_timer (hp timers, blocking = max lower/polled WCET - 1), rta_polling_point_callback "
                       "(all other callbacks, chains as chain-level RBFs) and rta_processing_chain; TLC explores every execution of the "
                       "executor model (arrivals, execution times, budget placements); second batch: event sources as FIFO servers under a "
                       "reservation (Sched.tla) against rta_event_source; non-trivial = some bound exceeds the own WCET")
    run.assumptions += ROS_ASSUME
    world_stage(run, "executor", "ros2sys", "MCRos2Exec.tla", "MCRos2Exec.cfg", slim=("id", "supply", "cbs"),
                extra=["--family", "ecrts19", "--nsys", _nsys(run, 1400, 9000)])
    world_stage(run, "event-source", "systems", "MCSched.tla", "MCSched.cfg",
                extra=["--families", "es", "--nsys", _nsys(run, 250, 3000)])
    _ros_equational(run, "0,1,2,3")


@check("C05")
def c05(run):
    run.cov["rule"] = ("workloads: 2-3 callbacks (timer / polled with known priority / polled with unknown priority) with external arrival "
                       "curves; for rr and for bw separately the bound vector is obtained by iterating the singleton-subchain analysis "
                       "upwards from the WCETs until it reproduces itself; TLC explores every execution of the executor model for every "
                       "priority order consistent with the known priorities; non-trivial = some bound exceeds the own WCET")
    run.assumptions += ROS_ASSUME
    world_stage(run, "executor", "ros2sys", "MCRos2Exec.tla", "MCRos2Exec.cfg", slim=("id", "supply", "cbs"),
                extra=["--family", "rtss21", "--nsys", _nsys(run, 900, 4000)])
    # growth beyond the property's wording: two-callback chains inside rr / bw workloads, end-to-end bound of
    # rr::rta_subchain([s, k]) resp. bw::rta_subchain with the conservative propagation of the source's arrival curve
    world_stage(run, "rr-chains", "ros2sys", "MCRos2Exec.tla", "MCRos2Exec.cfg", slim=("id", "supply", "cbs"),
                extra=["--family", "rrchain", "--nsys", _nsys(run, 1500, 25000)])
    _ros_equational(run, "4,5")


def _from_trace_stage(run, kind, driver, nontrivial):
    """R3: the sliding-window inference algorithm as a state machine infers exactly the definitional prefix
    (MCFromTrace, every trace of the box); spec -> impl: the traces TLC generated are replayed on the implementation"""
    out = mc_stage(run, "from-trace-machine", "MCFromTrace.tla", "MCFromTrace.cfg", env={"KIND": kind}, workers=4)
    traces = []
    for ln in out.splitlines():
        ln = ln.strip()
        if ln.startswith('"TRACE '):
            js = json.loads(ln)[len("TRACE "):]
            if js not in traces:
                traces.append(js)
    if not traces:
        raise vflib.ToolError("TLC generated no traces")
    wd = run.sub("from-trace-replay")
    tp = os.path.join(wd, "traces.ndjson")
    with open(tp, "w") as f:
        f.write("\n".join(traces) + "\n")
    trace_stage(run, "from-trace-replay", driver, extra=["--traces", tp], nontrivial=nontrivial)
    run.stage("from-trace-replay-source", kind="spec-to-impl", behaviours=len(traces))


def _cache_stage(run, kind):
    """histories on shared ExtrapolatingCurve clones, replayed through the CurveCache machine"""
    trace_stage(run, "cache-histories", "cache", spec="TraceCache.tla", cfg="TraceCache.cfg", extra=["--kind", kind],
                session_key=lambda ln: '"op":"new"' in ln,
                nontrivial=lambda e: e["op"] in ("q", "it_next", "least") and e.get("ans", 0) > 1,
                keyfn=lambda e: e)
    # R3: the cache machine is history independent (exhaustive over operation sequences of length <= 8)
    mc_stage(run, "cache-machine", "MCCurveCache.tla", "MCCurveCache.cfg", env={"KIND": kind, "HIST": "0"})
    # spec -> impl: behaviours generated by TLC from the machine are replayed on the real objects
    wd = run.sub("cache-replay")
    n = 2500 if run.tier == "thorough" else 250
    rc, out = vflib.tlc_mc(os.path.join(vflib.SPEC, "mc"), "MCCurveCache.tla", "MCCurveCache.cfg", wd, "simulate",
                           env_extra={"KIND": kind, "HIST": "1"}, workers=1, timeout=900,
                           extra_args=["-seed", str(run.seed), "-simulate", "num=%d" % n, "-depth", "12"])
    hs = []
    seen = set()
    for ln in out.splitlines():
        ln = ln.strip()
        if ln.startswith('"HISTORY '):
            js = json.loads(ln)[len("HISTORY "):]
            if js not in seen:
                seen.add(js)
                hs.append(js)
    if not hs:
        raise vflib.ToolError("TLC generated no histories:\n" + out[-2000:])
    hs = hs[:: max(1, len(hs) // (4 * n))][: 4 * n]
    hpath = os.path.join(wd, "histories.ndjson")
    with open(hpath, "w") as f:
        f.write("\n".join(hs) + "\n")
    trace_stage(run, "cache-replay", "cache", spec="TraceCache.tla", cfg="TraceCache.cfg",
                extra=["--kind", kind, "--histories", hpath],
                session_key=lambda ln: '"op":"new"' in ln,
                nontrivial=lambda e: e["op"] in ("q", "it_next", "least") and e.get("ans", 0) > 1,
                keyfn=lambda e: e)
    run.stage("cache-replay-source", kind="spec-to-impl", behaviours=len(hs))


@check("C12")
def c12(run):
    run.cov["rule"] = ("curve_trace: Curve::from_trace on every event trace with <=5 events and gaps 0..3 (thorough: <=7, 0..4) x every "
                       "prefix length, plus random longer traces, checked against the window counts of the trace for every window length "
                       "up to twice the span; derive: from_arrival_bound / _until / From<Periodic|Sporadic|&ArrivalCurvePrefix> / "
                       "ArrivalCurvePrefix::from_arrival_bound_until on random exact sources: never smaller than the source, equal up to the "
                       "covered prefix; dmin_iter: delta_min_iter versus the table of number_arrivals; non-trivial = table not constant")
    run.assumptions += ["traces are well-formed (the inferred prefix ends > 0)",
                        "domination beyond the covered prefix is required for exact sources; loose sources (plain Curve beyond its prefix, "
                        "ArrivalCurvePrefix beyond its horizon) are compared inside their exact region and against their exact root model"]
    def nontriv(e):
        o = e["out"]
        t = o.get("eta") or o.get("der") or []
        return len(set(t)) > 2
    trace_stage(run, "derived", "c12", nontrivial=nontriv)
    _from_trace_stage(run, "arrival", "c12", nontriv)


@check("C13")
def c13(run):
    run.cov["rule"] = ("curve_ext: extrapolate / extrapolate_steps / extrapolate_with_bound on every super-additive prefix of length 2-3 with "
                       "entries <=6 (thorough 8) x several horizons / step counts / bounds, plus random prefixes of length <=5: values inside "
                       "the original prefix unchanged, never more arrivals than before, never below the tight curve of the sequences that "
                       "respect the original prefix; cache stage: histories of queries on shared ExtrapolatingCurve clones replayed through "
                       "the CurveCache state machine; non-trivial = table not constant")
    trace_stage(run, "extrapolation", "c13", nontrivial=lambda e: len(set(e["out"].get("ext", []))) > 2)
    # R1 (c): an extended prefix still bounds every event sequence that respects the original prefix
    world_stage(run, "prefix-sequences", "procs", "MCArrivalProc.tla", "MCArrivalProc.cfg", slim=("id", "gens", "eta"),
                extra=["--ext", "1"], witness=lambda r: [])
    _cache_stage(run, "arrival")


TABLE_KEYS = {"rbf", "sn", "lw", "mj", "eta", "cost"}


def _strip_tables(x):
    if isinstance(x, dict):
        return {k: _strip_tables(v) for k, v in x.items() if k not in TABLE_KEYS}
    if isinstance(x, list):
        return [_strip_tables(v) for v in x]
    return x


def _event_key(e):
    if "in" in e:
        return vflib.canon({"op": e.get("op"), "in": _strip_tables(e["in"])})
    return vflib.canon({k: v for k, v in e.items() if k not in ("ans", "res", "out", "session_failed")})


def _tlc_safe(o):
    """TLC's integers are 32-bit: larger recorded values travel as decimal strings (C20 only compares them)"""
    if isinstance(o, bool):
        return o
    if isinstance(o, int):
        return o if abs(o) < 2 ** 31 else "n:%d" % o
    if isinstance(o, list):
        return [_tlc_safe(x) for x in o]
    if isinstance(o, dict):
        return {k: _tlc_safe(v) for k, v in o.items()}
    return o


def _event_out(e):
    if "out" in e:
        return _tlc_safe(e["out"])
    return {k: e[k] for k in ("ans", "res") if k in e}


@check("C20")
def c20(run):
    run.cov["rule"] = ("total events: every driver of the framework (model queries, step iterators, cost models, request bounds, supplies, "
                       "fixed-point search, the nine + six analyses on random well-formed inputs, derived curves, extrapolation, cache "
                       "histories) plus a corner-case driver (Never, empty interference, zero blocking, limit 1, D<C, subchain = whole "
                       "workload, budget = period, step-less search spaces, window lengths / demands up to 2^60 and at the top of the u64 range) is run by a dev build (debug assertions + overflow checks) and "
                       "by a release build of the harness on identical seeded inputs; the two traces are joined call by call and TLC accepts a "
                       "call iff both builds returned (no panic, no hang) the same value; non-trivial = the dev outcome is not Ok(0)/empty; "
                       "distinct = canonical JSON of the input")
    run.assumptions += ["well-formed inputs as in DESIGN.md §3.2", "hang = no return within the watchdog (20 s; corner driver 6 s)"]
    drivers = [("corner", ["--watchdog-ms", "6000"]), ("eta", []), ("steps", []), ("cost", []), ("cost_trace", []), ("demand", []),
               ("supply", []), ("search", []), ("rta", []), ("ros2", []), ("c12", []), ("c13", []),
               ("cache", ["--kind", "arrival"]), ("cache", ["--kind", "wcet"]),
               # closed-form queries at magnitudes up to 2^60, and at the very top of the u64 range (overflow checks)
               ("big", []), ("extreme", [])]
    wd = run.sub("profiles")
    merged = os.path.join(wd, "trace.ndjson")
    full = []
    with open(merged, "w") as mf:
        for i, (drv, extra) in enumerate(drivers):
            fa = os.path.join(wd, "%02d-%s-dev.ndjson" % (i, drv))
            fb = os.path.join(wd, "%02d-%s-rel.ndjson" % (i, drv))
            vflib.run_driver(drv, fa, run.tier, run.seed, profile="dev", extra=extra)
            vflib.run_driver(drv, fb, run.tier, run.seed, profile="release", extra=extra)
            ea, eb = vflib.read_events(fa), vflib.read_events(fb)
            bykey = {}
            for e in eb:
                bykey.setdefault(_event_key(e), []).append(e)
            for e in ea:
                k = _event_key(e)
                lst = bykey.get(k)
                if lst:
                    o = {"dev": _event_out(e), "rel": _event_out(lst.pop(0))}
                else:
                    o = {"only": "dev", "dev": _event_out(e)}
                line = {"op": "total", "in": {"driver": drv, "op0": e.get("op"), "n": len(full)}, "out": o}
                mf.write(json.dumps(line) + "\n")
                full.append(dict(op="total", driver=drv, event=e, out=o, **{"in": dict(e.get("in", {}), driver=drv, op0=e.get("op"))}))
            for k, lst in bykey.items():
                for e in lst:
                    o = {"only": "rel", "rel": _event_out(e)}
                    line = {"op": "total", "in": {"driver": drv, "op0": e.get("op"), "n": len(full)}, "out": o}
                    mf.write(json.dumps(line) + "\n")
                    full.append(dict(op="total", driver=drv, event=e, out=o, **{"in": dict(e.get("in", {}), driver=drv, op0=e.get("op"))}))
            os.remove(fa)
            os.remove(fb)
    res = vflib.tlc_trace(os.path.join(vflib.SPEC, "trace"), "TraceLib.tla", "TraceLib.cfg", merged, wd, timeout=1800)
    for rec in full:
        o = rec["out"].get("dev", rec["out"].get("rel"))
        nontriv = not (isinstance(o, dict) and (o.get("ok") == 0 or o.get("ans") in (0, 1)))
        run.count({"driver": rec["driver"], "in": _strip_tables(rec["in"])}, nontriv)
    for rec in full[:: max(1, len(full) // 3)][:3]:
        run.sample({"driver": rec["driver"], "in": _strip_tables(rec["in"]), "out": rec["out"]})
    run.cov["states"] += res["states"]
    run.cov["transitions"] += res["transitions"]
    run.cov["traces_validated_against_impl"] += 2 * res["lines"]
    for (gl, op, checks) in res["rejects"]:
        rec = full[gl - 1]
        for c in checks:
            panic = ""
            for side in ("dev", "rel"):
                o = rec["out"].get(side)
                if isinstance(o, dict) and "panic" in o:
                    panic = o["panic"]
            run.fail(dict(stage="profiles", op=rec["in"].get("op0"), check=c, record=rec, line=gl,
                          tags=rec["in"].get("tags") or [], panic=panic))
    run.stage("profiles", kind="trace-validation", drivers=[d for d, _ in drivers], events=len(full), rejected=len(res["rejects"]))


@check("C15", level="other")
def c15(run):
    run.cov["rule"] = ("poisson events: number_arrivals for rates {1/4,1/2,1,2} x epsilon {1/10,1/20,1/100,1/1000} x interval lengths 0, "
                       "1..40 densely and then up to mean 1000 (thorough 2000); poisson_pmf: arrival_probability for k = 0..2*mean+24 at 8 "
                       "interval lengths (means <= 50); non-trivial = some recorded quantile > 1; distinct = canonical JSON of the input")
    run.cov["explanation"] = ("TLA+ has no reals and TLC integers are 32-bit, so floating-point accuracy cannot be decided exactly. "
                              "Poisson.tla encloses the Poisson weights relative to the mode by integer recurrences with outward rounding "
                              "(scale 2*10^5) and derives an interval [QLo, QHi] that provably contains the (1-eps)-quantile; TLC accepts a "
                              "recorded value iff it lies in that interval, is 0 at 0, is monotone along increasing interval lengths, and the "
                              "call returned; pmf values (in units of 10^-5) must satisfy the Poisson recurrence and sum to one up to rounding. "
                              "The interval is 1-3 values wide for eps >= 10^-3; much smaller eps cannot be resolved at this scale.")
    run.assumptions += ["per-call watchdog 20 s (non-termination is reported as a hang)", "rational rates and epsilons as listed"]
    trace_stage(run, "poisson", "poisson", extra=["--watchdog-ms", "20000"],
                nontrivial=lambda e: any(x > 1 for x in e["out"].get("n", e["out"].get("u", []))))
