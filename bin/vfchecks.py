"""Per-property pipelines (DESIGN.md §4)."""
import glob
import json
import os

import vflib
from vflib import trace_stage, log

CHECKS = {}
LEVELS = {}


def check(prop, level="model_checking"):
    def deco(f):
        CHECKS[prop] = f
        LEVELS[prop] = level
        return f
    return deco


def setup():
    vflib.build_harness("dev")
    vflib.build_harness("release")
    # parse every specification module once
    bad = 0
    for d in ("", "trace", "mc"):
        for p in sorted(glob.glob(os.path.join(vflib.SPEC, d, "*.tla"))):
            r = vflib.sh(["java", "-DTLA-Library=" + vflib.SPEC + ":" + os.path.join(vflib.SPEC, "trace") + ":" +
                          os.path.join(vflib.SPEC, "mc"), "-cp", vflib.JARS, "tla2sany.SANY", p],
                         cwd=os.path.dirname(p), check=False)
            if "Semantic errors" in r.stdout or "Parse Error" in r.stdout or r.returncode != 0 and "error" in r.stdout.lower():
                log("SANY failed on " + p + "\n" + r.stdout[-2000:])
                bad += 1
    log("setup done, %d spec parse failures" % bad)
    return 2 if bad else 0


def replay(path):
    with open(path) as f:
        rp = json.load(f)
    print(json.dumps(rp, indent=1)[:20000])
    return 0


# ---------------------------------------------------------------------------
@check("C09")
def c09(run):
    run.cov["rule"] = ("sbf events: one per (budget, deadline, period) triple -- all triples with period <= 14 "
                       "(thorough: 40) plus seeded random larger ones; non-trivial = budget < period (a real gap exists); "
                       "distinct = canonical JSON of the supply description")
    run.assumptions += ["closed form of Supply.tla is tied to all budget placements by Reservation.tla (MCReservation)",
                        "TLC integers are 32-bit: periods explored <= 400"]
    trace_stage(run, "sbf-tables", "supply",
                nontrivial=lambda e: e["in"]["supply"].get("Q", 1) < e["in"]["supply"].get("P", 1),
                keyfn=lambda e: e["in"]["supply"])
