------------------------------ MODULE Ros2Exec ------------------------------
(***************************************************************************)
(* World model: the ROS 2 single-threaded executor under a reservation.    *)
(* It is the universe the bounds of src/ros2 quantify over (C04, C05).     *)
(*                                                                         *)
(* Modelling assumptions (DESIGN.md §4 C04, A1-A5):                        *)
(*  A1 dispatch decisions are taken only in ticks in which the reservation *)
(*     supplies service and no callback is in progress;                    *)
(*  A2 at a dispatch point: if a timer has a pending instance, the         *)
(*     highest-priority such timer runs (timer readiness is evaluated      *)
(*     live); else if the ready set is non-empty its highest-priority      *)
(*     member runs and leaves the ready set; else this is a polling point: *)
(*     the ready set becomes the set of polled callbacks with a pending    *)
(*     instance, and dispatch continues in the same instant;               *)
(*  A3 a dispatched callback consumes its oldest pending instance and runs *)
(*     non-preemptively for an actual cost in 1..C (stretching over        *)
(*     supply gaps);                                                       *)
(*  A4 completion of a chain callback activates its successor at the       *)
(*     completion instant; the instance keeps the age of its source event; *)
(*  A5 external arrivals are zero-time actions constrained by the arrival  *)
(*     automata of Sched.tla.                                              *)
(*                                                                         *)
(* System record (one line of IOEnv.BATCH):                                *)
(*   supply  reservation [k, Q, D, P] or dedicated                         *)
(*   cbs     sequence of callbacks                                         *)
(*     t     "timer" | "polled"                                            *)
(*     prio  priority among the callbacks of the same type (smaller =      *)
(*           higher), or -1 = unknown: Init chooses any order              *)
(*     arr   arrival automaton, or [k |-> "chain"] if activated by pred    *)
(*     succ  index of the successor callback in its chain (0 = none)       *)
(*     C     WCET (of a single instance)                                   *)
(*     w     optional cumulative-cost prefix (wcet::Curve): any n          *)
(*           consecutive instances cost at most w[n] in total; << >> =     *)
(*           scalar WCET.  hist keeps the costs of the last Len(w)-1       *)
(*           completed instances (cost automaton, as in Sched.tla).        *)
(*     R     bound on the age of its instances claimed by the              *)
(*           implementation (for chain members: the end-to-end bound of    *)
(*           the chain), -1 = no claim;  cap = queue capacity              *)
(***************************************************************************)
EXTENDS Integers, Sequences, FiniteSets, TLC, Json, IOUtils

Sys == ndJsonDeserialize(IOEnv.BATCH)

VARIABLES cfg, rank, arr, pend, cur, ready, sup, ptr, hist
vars == <<cfg, rank, arr, pend, cur, ready, sup, ptr, hist>>

S == Sys[cfg]
N == Len(S.cbs)
CB(i) == S.cbs[i]
Claimed(i) == CB(i).R >= 0
External(i) == CB(i).arr.k # "chain"
HasCurve(i) == "w" \in DOMAIN CB(i) /\ Len(CB(i).w) > 0
RECURSIVE SumFirst(_, _)
SumFirst(s, n) == IF n = 0 THEN 0 ELSE s[n] + SumFirst(s, n - 1)
\* the largest cost the next instance of callback i may have, given the costs of its predecessors
AllowedCost(i) ==
    IF ~HasCurve(i) THEN CB(i).C
    ELSE LET w == CB(i).w
             h == hist[i]
             lim(m) == w[m] - SumFirst(h, m - 1)
             ms == 1..(IF Len(h) + 1 <= Len(w) THEN Len(h) + 1 ELSE Len(w))
         IN CHOOSE x \in {lim(m) : m \in ms} : \A y \in {lim(m) : m \in ms} : x <= y
Record(i, cost) ==
    IF ~HasCurve(i) THEN hist[i]
    ELSE LET h2 == <<cost>> \o hist[i]
         IN IF Len(h2) > Len(CB(i).w) - 1 THEN SubSeq(h2, 1, Len(CB(i).w) - 1) ELSE h2
Timers == {i \in 1..N : CB(i).t = "timer"}
Polled == {i \in 1..N : CB(i).t = "polled"}

MinOf(a, b) == IF a <= b THEN a ELSE b
MaxOf(a, b) == IF a >= b THEN a ELSE b

\* ---- arrival automata and reservation: as in Sched.tla -------------------
ArrInit(a) ==
    IF a.k = "sporadic" THEN a.T + a.J
    ELSE IF a.k = "dmin" THEN [k \in 1..Len(a.d) |-> a.d[Len(a.d)]]
    ELSE 0
ArrCanRelease(a, st) ==
    IF a.k = "sporadic" THEN st >= a.T
    ELSE IF a.k = "dmin" THEN \A k \in 1..Len(a.d) : st[k] >= a.d[k]
    ELSE FALSE
ArrRelease(a, st) ==
    IF a.k = "sporadic" THEN MinOf(a.J, st - a.T)
    ELSE [k \in 1..Len(a.d) |-> IF k = 1 THEN 0 ELSE st[k - 1]]
ArrTick(a, st) ==
    IF a.k = "sporadic" THEN MinOf(a.T + a.J, st + 1)
    ELSE IF a.k = "dmin" THEN [k \in 1..Len(a.d) |-> MinOf(a.d[Len(a.d)], st[k] + 1)]
    ELSE 0

SupInitSet(s) ==
    IF s.k = "dedicated" THEN {<<0, 0>>}
    ELSE {<<ph, left>> \in (0..(s.P - 1)) \X (0..s.Q) :
             /\ left >= MaxOf(0, s.Q - ph)
             /\ left <= MinOf(s.Q, MaxOf(0, s.D - ph))}
SupMay(s, st) == s.k = "dedicated" \/ st[2] > 0
SupMust(s, st) == s.k = "dedicated" \/ (st[2] > 0 /\ st[2] >= s.D - st[1])
SupStep(s, st, served) ==
    IF s.k = "dedicated" THEN st
    ELSE LET left == IF served THEN st[2] - 1 ELSE st[2]
         IN IF st[1] + 1 = s.P THEN <<0, s.Q>> ELSE <<st[1] + 1, left>>

\* ---- priority orders -------------------------------------------------------
\* rank: a total order (smaller = higher priority) consistent with the known
\* priorities among callbacks of the same type
Perms == {f \in [1..N -> 1..N] : \A i, j \in 1..N : i # j => f[i] # f[j]}
Consistent(f) ==
    \A i, j \in 1..N :
        (CB(i).t = CB(j).t /\ CB(i).prio >= 0 /\ CB(j).prio >= 0 /\ CB(i).prio < CB(j).prio) => f[i] < f[j]

Init ==
    /\ cfg \in 1..Len(Sys)
    /\ rank \in {f \in Perms : Consistent(f)}
    /\ arr = [i \in 1..N |-> ArrInit(CB(i).arr)]
    /\ pend = [i \in 1..N |-> << >>]
    /\ cur = <<0, 0>>
    /\ ready = {}
    /\ sup \in SupInitSet(S.supply)
    /\ ptr = 1
    /\ hist = [i \in 1..N |-> << >>]

\* ---- external arrivals (A5) -------------------------------------------------
Arrive(i) ==
    /\ External(i)
    /\ i >= ptr
    /\ ArrCanRelease(CB(i).arr, arr[i])
    /\ Len(pend[i]) < CB(i).cap
    /\ arr' = [arr EXCEPT ![i] = ArrRelease(CB(i).arr, arr[i])]
    /\ pend' = [pend EXCEPT ![i] = Append(pend[i], 0)]
    /\ ptr' = i
    /\ UNCHANGED <<cfg, rank, cur, ready, sup, hist>>

\* ---- dispatching (A1, A2) ---------------------------------------------------
Best(X) == CHOOSE i \in X : \A j \in X : rank[i] <= rank[j]
ReadyTimers == {i \in Timers : pend[i] # << >>}
\* <<callback to start, ready set afterwards>>; <<0, ready>> = nothing to do
Dispatch ==
    IF ReadyTimers # {} THEN <<Best(ReadyTimers), ready>>
    ELSE IF ready # {} THEN <<Best(ready), ready \ {Best(ready)}>>
    ELSE LET polledNow == {i \in Polled : pend[i] # << >>}     \* polling point
         IN IF polledNow = {} THEN <<0, {}>>
            ELSE <<Best(polledNow), polledNow \ {Best(polledNow)}>>

AgeSeq(i, s) == IF Claimed(i) THEN [k \in 1..Len(s) |-> s[k] + 1] ELSE s

Tick ==
    /\ \E served \in BOOLEAN :
         /\ served => SupMay(S.supply, sup)
         /\ ~served => ~SupMust(S.supply, sup)
         /\ sup' = SupStep(S.supply, sup, served)
         /\ IF ~served
            THEN /\ pend' = [i \in 1..N |-> AgeSeq(i, pend[i])]
                 /\ UNCHANGED <<cur, ready, hist>>
            ELSE LET d == IF cur[1] # 0 THEN <<cur[1], ready>> ELSE Dispatch
                     i == d[1]
                     done == (IF cur[1] # 0 THEN cur[2] ELSE 0) + 1
                 IN IF i = 0
                    THEN /\ pend' = [j \in 1..N |-> AgeSeq(j, pend[j])]
                         /\ cur' = <<0, 0>>
                         /\ ready' = d[2]
                         /\ hist' = hist
                    ELSE \E complete \in BOOLEAN :
                           /\ (done >= AllowedCost(i)) => complete    \* at most the allowed cost (A3)
                           /\ hist' = IF complete THEN [hist EXCEPT ![i] = Record(i, done)] ELSE hist
                           /\ ready' = d[2]
                           /\ IF complete
                              THEN LET inst == pend[i][1]
                                       s == CB(i).succ
                                   IN /\ cur' = <<0, 0>>
                                      /\ pend' = [j \in 1..N |->
                                            IF j = i THEN AgeSeq(j, Tail(pend[j]))
                                            ELSE IF j = s /\ Len(pend[j]) < CB(j).cap
                                                 THEN Append(AgeSeq(j, pend[j]), IF Claimed(j) THEN inst + 1 ELSE 0)  \* A4
                                                 ELSE AgeSeq(j, pend[j])]
                              ELSE /\ cur' = <<i, done>>
                                   /\ pend' = [j \in 1..N |-> AgeSeq(j, pend[j])]
    /\ arr' = [i \in 1..N |-> ArrTick(CB(i).arr, arr[i])]
    /\ ptr' = 1
    /\ UNCHANGED <<cfg, rank>>

Next == Tick \/ \E i \in 1..N : Arrive(i)

\* ---- properties ---------------------------------------------------------------
\* C04 / C05: no pending instance of a claimed callback is as old as its bound
Safe == \A i \in 1..N : Claimed(i) => \A k \in 1..Len(pend[i]) : pend[i][k] < CB(i).R

\* modelling sanity: queue capacities of claimed callbacks are never exhausted
CapOk == \A i \in 1..N : Claimed(i) => Len(pend[i]) < CB(i).cap
=============================================================================
