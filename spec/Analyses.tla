------------------------------ MODULE Analyses ------------------------------
(***************************************************************************)
(* The nine dedicated-processor analyses (FP x4, EDF x4, FIFO) written     *)
(* definitionally (DESIGN.md Appendix A; property C06's wording):          *)
(*   L   = least positive solution of the busy-window inequality, by       *)
(*         linear scan;                                                    *)
(*   for EVERY offset A in [0, L) -- not only curve steps -- the least     *)
(*         solution AF_A of the offset equation, by linear scan;           *)
(*   result = max over all A of (AF_A -. A) + rem;                         *)
(*   NONE (= Err) iff L or some AF_A does not exist at or below the limit. *)
(*                                                                         *)
(* A task is a record [C |-> wcet, rbf |-> table of its request-bound      *)
(* function (service_needed of the very object handed to the analysis) on  *)
(* 0..H] plus, per policy, D (relative deadline), seg (longest             *)
(* non-preemptive segment), last (length of the last segment).             *)
(***************************************************************************)
EXTENDS FixedPoint

Rbf(t, x) == At(t.rbf, x)
SumRbf(ts, x) == FoldLeft(LAMBDA acc, t : acc + Rbf(t, x), 0, ts)

IsFp(p) == p \in {"fp_p", "fp_np", "fp_lp", "fp_fnp"}
IsEdf(p) == p \in {"edf_p", "edf_np", "edf_lp", "edf_fnp"}

\* remaining cost after the run-to-completion threshold
Rem(p, tua) ==
    CASE p \in {"fp_np", "edf_np"} -> tua.C - 1
      [] p \in {"fp_lp", "edf_lp"} -> tua.last - 1
      [] OTHER -> 0

\* ---- fixed priority -------------------------------------------------------
\* others = higher-or-equal-priority tasks; B = blocking bound (0 for fp_p)
FpDef(p, tua, others, Bin, lim) ==
    LET rem == Rem(p, tua)
        B == IF p = "fp_p" THEN 0 ELSE Bin      \* the fully preemptive analysis has no blocking term
        L == LfpDed(LAMBDA x : B + SumRbf(others, x) + Rbf(tua, x), lim)
        AF(A) == LfpDed(LAMBDA x : B + (Rbf(tua, A + 1) - rem) + SumRbf(others, x), lim)
    IN IF L = NONE THEN NONE
       ELSE IF L = 0 THEN 0
       ELSE LET afs == [i \in 1..L |-> AF(i - 1)]     \* afs[A + 1] = AF_A
            IN IF \E i \in 1..L : afs[i] = NONE THEN NONE
               ELSE MaxSeq([i \in 1..L |-> Monus(afs[i], i - 1) + rem])

\* ---- EDF --------------------------------------------------------------------
\* others = all other tasks, each with D and (np/lp/fnp) seg
EdfSeg(p, o) == IF p = "edf_np" THEN o.C ELSE o.seg
EdfBlocking(p, tua, others, A) ==
    IF p = "edf_p" THEN 0
    ELSE MaxSeq([j \in 1..Len(others) |->
            IF others[j].D > tua.D + A /\ Rbf(others[j], 1) > 0
            THEN Monus(EdfSeg(p, others[j]), 1) ELSE 0])

EdfDef(p, tua, others, lim) ==
    LET rem == Rem(p, tua)
        L == LfpDed(LAMBDA x : SumRbf(others, x) + Rbf(tua, x), lim)
        Hep(A, x) == FoldLeft(LAMBDA acc, o : acc + Rbf(o, MinOf(x, Monus(A + 1 + tua.D, o.D))), 0, others)
        AF(A) == LfpDed(LAMBDA x : EdfBlocking(p, tua, others, A) + (Rbf(tua, A + 1) - rem) + Hep(A, x), lim)
    IN IF L = NONE THEN NONE
       ELSE IF L = 0 THEN 0
       ELSE LET afs == [i \in 1..L |-> AF(i - 1)]
            IN IF \E i \in 1..L : afs[i] = NONE THEN NONE
               ELSE MaxSeq([i \in 1..L |-> Monus(afs[i], i - 1) + rem])

\* ---- FIFO -------------------------------------------------------------------
FifoDef(tasks, lim) ==
    LET L == LfpDed(LAMBDA x : SumRbf(tasks, x), lim)
    IN IF L = NONE THEN NONE
       ELSE IF L = 0 THEN 0
       ELSE MaxSeq([i \in 1..L |-> Monus(SumRbf(tasks, i), i - 1)])

\* one entry point; the input record is the recorded event's "in" field
RtaDef(inp) ==
    CASE IsFp(inp.policy) -> FpDef(inp.policy, inp.tua, inp.others, inp.B, inp.lim)
      [] IsEdf(inp.policy) -> EdfDef(inp.policy, inp.tua, inp.others, inp.lim)
      [] inp.policy = "fifo" -> FifoDef(inp.others, inp.lim)
=============================================================================
