----------------------------- MODULE Reservation -----------------------------
(***************************************************************************)
(* World model for C09: a periodic / deadline-constrained reservation      *)
(* (Q, D, P) delivers exactly Q units of service in every period of length *)
(* P, each unit somewhere before the relative deadline D; the placement is *)
(* free.  State <<ph, left>>: phase in the current period and budget left. *)
(* (The same automaton is embedded in Sched.tla and Ros2Exec.tla.)         *)
(*                                                                         *)
(* Window observer: at any instant an observer may open a window; from     *)
(* then on it counts the elapsed length e and the service g received.      *)
(* Since a window of length e is a prefix of every longer window with the  *)
(* same start, one exploration covers all window lengths up to H.          *)
(*                                                                         *)
(*   Safe     g >= sbf(e) for the claimed table sbf  (never less service)  *)
(*   Witness  reports every e for which g = sbf(e) is reached (exactness:  *)
(*            the bound is attained for every window length)               *)
(* The batch (IOEnv.BATCH) holds records [id, Q, D, P, sbf |-> table 0..H] *)
(* recorded from the implementation's provided_service.                    *)
(***************************************************************************)
EXTENDS Integers, Sequences, FiniteSets, TLC, Json, IOUtils

Sys == ndJsonDeserialize(IOEnv.BATCH)

VARIABLES cfg, ph, left, open, e, g
vars == <<cfg, ph, left, open, e, g>>

R == Sys[cfg]
H == Len(R.sbf) - 1
MinOf(a, b) == IF a <= b THEN a ELSE b
MaxOf(a, b) == IF a >= b THEN a ELSE b

Init ==
    /\ cfg \in 1..Len(Sys)
    /\ ph \in 0..(R.P - 1)
    /\ left \in 0..R.Q
    /\ left >= MaxOf(0, R.Q - ph)               \* at most ph units consumed so far in this period
    /\ left <= MinOf(R.Q, MaxOf(0, R.D - ph))   \* what is left still fits before the deadline
    /\ open = FALSE /\ e = 0 /\ g = 0

Open == ~open /\ open' = TRUE /\ UNCHANGED <<cfg, ph, left, e, g>>

Tick ==
    /\ (~open \/ e < H)
    /\ \E served \in BOOLEAN :
         /\ served => left > 0
         /\ ~served => ~(left > 0 /\ left >= R.D - ph)      \* must serve when the deadline leaves no slack
         /\ IF ph + 1 = R.P THEN ph' = 0 /\ left' = R.Q
            ELSE ph' = ph + 1 /\ left' = (IF served THEN left - 1 ELSE left)
         /\ IF open THEN e' = e + 1 /\ g' = g + (IF served THEN 1 ELSE 0)
            ELSE UNCHANGED <<e, g>>
    /\ UNCHANGED <<cfg, open>>

Next == Open \/ Tick

Safe == open => g >= R.sbf[e + 1]

Witness ==
    (open /\ g = R.sbf[e + 1]) =>
        LET key == <<R.id, e>>
        IN IF key \in TLCGet(8) THEN TRUE
           ELSE TLCSet(8, TLCGet(8) \cup {key}) /\ PrintT("WITNESS " \o ToString(R.id) \o " " \o ToString(e))
=============================================================================
