-------------------------------- MODULE Sched --------------------------------
(***************************************************************************)
(* World model: a discrete-time uniprocessor scheduler, written from the   *)
(* system models of the analysed policies (not from the analyses'          *)
(* equations).  It is the universe the response-time bounds of             *)
(* src/fixed_priority, src/edf and src/fifo quantify over:                 *)
(*   - any release sequence allowed by the tasks' arrival curves,          *)
(*   - any execution time in 1..WCET,                                      *)
(*   - any legal placement of non-preemptive regions,                      *)
(*   - arbitrary tie-breaking,                                             *)
(* on a dedicated unit-speed processor (optionally: under a reservation,   *)
(* see the supply automaton below, used for the ROS 2 event source).       *)
(*                                                                         *)
(* A batch of systems is read from the ndjson file IOEnv.BATCH; Init       *)
(* chooses one (variable cfg), so one TLC run explores the union of the    *)
(* complete state spaces of all systems of the batch.  All clocks are      *)
(* relative (ages, time since last arrivals), hence every state space is   *)
(* finite and the exploration covers schedules of unbounded length.        *)
(*                                                                         *)
(* System record:                                                          *)
(*   policy  "fp" | "edf" | "fifo"                                         *)
(*   tasks   sequence of                                                   *)
(*     arr   [k |-> "sporadic", T, J]  or  [k |-> "dmin", d |-> <<..>>]    *)
(*     C     WCET (of a single job)                                        *)
(*     w     optional cumulative-cost prefix (wcet::Curve): any n          *)
(*           consecutive jobs of the task cost at most w[n] in total,      *)
(*           n <= Len(w); << >> = plain scalar WCET.  The cost automaton   *)
(*           keeps the costs of the last Len(w)-1 completed jobs (hist).   *)
(*     segs  segment bounds (sum = C): <<C>> = non-preemptive,             *)
(*           <<1,..,1>> = fully preemptive, anything else = limited        *)
(*           preemptive;  fl = max length of a floating NP region (0 = the *)
(*           task does not use floating regions; then segs = <<1,..,1>>)   *)
(*     prio  fixed priority (smaller = higher; ties allowed)               *)
(*     D     relative deadline (EDF)                                       *)
(*     R     the response-time bound claimed by the implementation, or -1  *)
(*     cap   queue capacity (eta(R) + 1 for claimed tasks, 1 otherwise)    *)
(*   supply [k |-> "dedicated"] or a reservation [Q, D, P]                 *)
(*                                                                         *)
(* Time: a job released at instant t has age 0 at t; Tick executes one     *)
(* unit in [t, t+1) and then ages every pending job.  A job that is still  *)
(* pending with age R has a response time larger than R.                   *)
(***************************************************************************)
EXTENDS Integers, Sequences, FiniteSets, TLC, Json, IOUtils

Sys == ndJsonDeserialize(IOEnv.BATCH)
TrackFin == IOEnv.TRACKFIN = "1"      \* C18: remember the job completed in the last tick

VARIABLES cfg,      \* which system of the batch
          arr,      \* arr[i]: state of task i's arrival automaton
          q,        \* q[i]: pending jobs of task i, oldest first; a job is <<age, k, u>>
          run,      \* task whose head job is inside a non-preemptive region (0 = none)
          npl,      \* remaining length of the open floating non-preemptive region
          ptr,      \* zero-time releases happen in non-decreasing task order within an instant
          sup,      \* reservation state <<phase, budget left>> (<<0,0>> for a dedicated processor)
          fin,      \* <<task, response time>> of the job completed in the last tick, else <<0,0>>
          hist      \* hist[i]: costs of the most recent completed jobs of task i (most recent first), see w
vars == <<cfg, arr, q, run, npl, ptr, sup, fin, hist>>

S == Sys[cfg]
N == Len(S.tasks)
T(i) == S.tasks[i]
Claimed(i) == T(i).R >= 0
HasCurve(i) == "w" \in DOMAIN T(i) /\ Len(T(i).w) > 0

RECURSIVE SumFirst(_, _)
SumFirst(s, n) == IF n = 0 THEN 0 ELSE s[n] + SumFirst(s, n - 1)
\* cost automaton: the largest cost the next job of task i may have, given the costs of its predecessors
\* (every window of m <= Len(w) consecutive jobs, ending with the next job, must respect w[m])
AllowedCost(i) ==
    IF ~HasCurve(i) THEN T(i).C
    ELSE LET w == T(i).w
             h == hist[i]
             lim(m) == w[m] - SumFirst(h, m - 1)
             ms == 1..(IF Len(h) + 1 <= Len(w) THEN Len(h) + 1 ELSE Len(w))
         IN CHOOSE x \in {lim(m) : m \in ms} : \A y \in {lim(m) : m \in ms} : x <= y
Record(i, cost) ==
    IF ~HasCurve(i) THEN hist[i]
    ELSE LET h2 == <<cost>> \o hist[i]
         IN IF Len(h2) > Len(T(i).w) - 1 THEN SubSeq(h2, 1, Len(T(i).w) - 1) ELSE h2

MinOf(a, b) == IF a <= b THEN a ELSE b
MaxOf(a, b) == IF a >= b THEN a ELSE b

(***************************************************************************)
(* Arrival automata: finite-state recognisers of exactly the release       *)
(* sequences that comply with the arrival model.                           *)
(*  sporadic (T, J): one counter d = now - a*, where a* is the least       *)
(*    arrival time consistent with the releases so far (arrivals >= T      *)
(*    apart, each released at most J later).  A release is legal iff       *)
(*    d >= T; afterwards d' = min(J, d - T).                               *)
(*  dmin <<d1..dn>>: h[k] = time since the k-th most recent release,       *)
(*    capped at dn; a release is legal iff h[k] >= d[k] for all k          *)
(*    (k+1 events span at least d[k]).                                     *)
(* MCArrivalProc checks both against explicit generators / window counts.  *)
(***************************************************************************)
ArrInit(a) ==
    IF a.k = "sporadic" THEN a.T + a.J
    ELSE [k \in 1..Len(a.d) |-> a.d[Len(a.d)]]

ArrCanRelease(a, st) ==
    IF a.k = "sporadic" THEN st >= a.T
    ELSE \A k \in 1..Len(a.d) : st[k] >= a.d[k]

ArrRelease(a, st) ==
    IF a.k = "sporadic" THEN MinOf(a.J, st - a.T)
    ELSE [k \in 1..Len(a.d) |-> IF k = 1 THEN 0 ELSE st[k - 1]]

ArrTick(a, st) ==
    IF a.k = "sporadic" THEN MinOf(a.T + a.J, st + 1)
    ELSE [k \in 1..Len(a.d) |-> MinOf(a.d[Len(a.d)], st[k] + 1)]

(***************************************************************************)
(* Reservation automaton (Q, D, P): exactly Q units of service per period, *)
(* each unit anywhere before the deadline.  State <<ph, left>>.            *)
(***************************************************************************)
Dedicated == S.supply.k = "dedicated"
SupInitSet(s) ==
    IF s.k = "dedicated" THEN {<<0, 0>>}
    ELSE {<<ph, left>> \in (0..(s.P - 1)) \X (0..s.Q) :
             /\ left >= MaxOf(0, s.Q - ph)              \* at most ph units already consumed
             /\ left <= MinOf(s.Q, MaxOf(0, s.D - ph))} \* what is left still fits before the deadline
\* may / must the current tick be a service tick?
SupMay(s, st) == s.k = "dedicated" \/ st[2] > 0
SupMust(s, st) == s.k = "dedicated" \/ (st[2] > 0 /\ st[2] >= s.D - st[1])
SupStep(s, st, served) ==
    IF s.k = "dedicated" THEN st
    ELSE LET left == IF served THEN st[2] - 1 ELSE st[2]
         IN IF st[1] + 1 = s.P THEN <<0, s.Q>> ELSE <<st[1] + 1, left>>

(***************************************************************************)
(* Initial states                                                          *)
(***************************************************************************)
Init ==
    /\ cfg \in 1..Len(Sys)
    /\ arr = [i \in 1..N |-> ArrInit(T(i).arr)]
    /\ q = [i \in 1..N |-> << >>]
    /\ run = 0
    /\ npl = 0
    /\ ptr = 1
    /\ sup \in SupInitSet(S.supply)
    /\ fin = <<0, 0>>
    /\ hist = [i \in 1..N |-> << >>]      \* no predecessors: the least constrained start of a cost sequence

(***************************************************************************)
(* Release(i): zero-time action, legal iff the arrival automaton allows.   *)
(***************************************************************************)
Release(i) ==
    /\ i >= ptr
    /\ ArrCanRelease(T(i).arr, arr[i])
    /\ Len(q[i]) < T(i).cap
    /\ arr' = [arr EXCEPT ![i] = ArrRelease(T(i).arr, arr[i])]
    /\ q' = [q EXCEPT ![i] = Append(q[i], <<0, 1, 0>>)]
    /\ ptr' = i
    /\ fin' = <<0, 0>>
    /\ UNCHANGED <<cfg, run, npl, sup, hist>>

(***************************************************************************)
(* Who may be scheduled                                                    *)
(***************************************************************************)
Pending == {i \in 1..N : q[i] # << >>}
HeadAge(i) == q[i][1][1]
\* key: smaller = scheduled first
Key(i) ==
    CASE S.policy = "fp" -> T(i).prio
      [] S.policy = "edf" -> T(i).D - HeadAge(i)
      [] S.policy = "fifo" -> 0 - HeadAge(i)
Eligible ==
    IF run # 0 THEN {run}
    ELSE {i \in Pending : \A j \in Pending : Key(i) <= Key(j)}

Age(job) == <<job[1] + 1, job[2], job[3]>>
\* jobs of tasks without a claim do not age (keeps the state space finite; they only block)
AgeQueue(i, s) == IF Claimed(i) THEN [k \in 1..Len(s) |-> Age(s[k])] ELSE s

AllOnes(segs) == \A k \in 1..Len(segs) : segs[k] = 1

(***************************************************************************)
(* Executing one unit of the head job of task i.  The possible outcomes    *)
(* are a set of <<new head (or Done), run', npl'>> triples.                *)
(***************************************************************************)
Done == << >>     \* "the job completed" (a sequence, so that it is comparable with job tuples)
Outcomes(i) ==
    LET job == q[i][1]
        segs == T(i).segs
        k == job[2]
        u == job[3] + 1                  \* units executed in the current segment, incl. this one
        m == Len(segs)
    IN IF T(i).fl > 0
       THEN \* floating non-preemptive regions; k counts executed units (k - 1 done before this tick)
            LET done == k                \* executed units including this one
                stay(n) == <<<<job[1], k + 1, 0>>, IF n > 0 THEN i ELSE 0, n>>
            IN (IF done >= AllowedCost(i) THEN {} ELSE
                   IF npl > 0 THEN {stay(npl - 1)}
                   ELSE {stay(n) : n \in 0..(T(i).fl - 1)})   \* this unit opens a region of length n+1
               \cup {<<Done, 0, 0>>}                        \* any execution time in 1..C
       ELSE \* segmented: the current segment ends now (always allowed once a unit ran) ...
            LET endseg == IF k = m \/ (AllOnes(segs) /\ k >= AllowedCost(i)) THEN {<<Done, 0, 0>>}
                          ELSE {<<<<job[1], k + 1, 0>>, 0, 0>>}
                                 \cup (IF AllOnes(segs) THEN {<<Done, 0, 0>>} ELSE {})
                \* ... or continues, non-preemptively, if its bound allows
                cont == IF u < segs[k] THEN {<<<<job[1], k, u>>, i, 0>>} ELSE {}
            IN endseg \cup cont

Tick ==
    /\ \E served \in BOOLEAN :
         /\ served => SupMay(S.supply, sup)
         /\ ~served => ~SupMust(S.supply, sup)
         /\ sup' = SupStep(S.supply, sup, served)
         /\ IF served /\ Pending # {}
            THEN \E i \in Eligible : \E o \in Outcomes(i) :
                   /\ q' = [j \in 1..N |->
                              IF j = i
                              THEN IF o[1] = Done THEN AgeQueue(j, Tail(q[j]))
                                   ELSE AgeQueue(j, <<o[1]>> \o Tail(q[j]))
                              ELSE AgeQueue(j, q[j])]
                   /\ run' = o[2]
                   /\ npl' = o[3]
                   \* executed units of the completing job: unit segments / floating: job[2]; one segment: job[3] + 1
                   /\ hist' = IF o[1] = Done
                              THEN [hist EXCEPT ![i] = Record(i, IF T(i).fl > 0 \/ AllOnes(T(i).segs)
                                                                 THEN q[i][1][2] ELSE q[i][1][3] + 1)]
                              ELSE hist
                   /\ fin' = IF TrackFin /\ o[1] = Done /\ Claimed(i)
                             THEN <<i, HeadAge(i) + 1>> ELSE <<0, 0>>
            ELSE /\ q' = [j \in 1..N |-> AgeQueue(j, q[j])]
                 /\ UNCHANGED <<run, npl, hist>>
                 /\ fin' = <<0, 0>>
    /\ arr' = [i \in 1..N |-> ArrTick(T(i).arr, arr[i])]
    /\ ptr' = 1
    /\ UNCHANGED cfg

Next == Tick \/ \E i \in 1..N : Release(i)

(***************************************************************************)
(* Properties                                                              *)
(***************************************************************************)
\* C01 / C02 / C03: no pending job of a claimed task is as old as its bound
Safe == \A i \in 1..N : Claimed(i) => \A k \in 1..Len(q[i]) : q[i][k][1] < T(i).R

\* modelling sanity: the queue capacity of a claimed task is never exhausted
CapOk == \A i \in 1..N : Claimed(i) => Len(q[i]) < T(i).cap

\* C18 probe: a job of task fin[1] completed with a response time equal to the bound.
\* Always TRUE; reports each (system, task) once per worker.
Witness ==
    (fin[1] # 0 /\ fin[2] = T(fin[1]).R) =>
        LET key == <<S.id, fin[1]>>
        IN IF key \in TLCGet(7) THEN TRUE
           ELSE /\ TLCSet(7, TLCGet(7) \cup {key})
                /\ PrintT("WITNESS " \o ToString(S.id) \o " " \o ToString(fin[1]))
=============================================================================
