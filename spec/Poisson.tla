------------------------------- MODULE Poisson -------------------------------
(***************************************************************************)
(* Property C15 in integer interval arithmetic (TLA+ has no reals, TLC     *)
(* integers are 32-bit; DESIGN.md §4 C15, reduced strength).               *)
(*                                                                         *)
(* The mean is the rational m = p / q.  Weights relative to the mode       *)
(* k0 = floor(m) are enclosed by the recurrences                           *)
(*     w(k+1) = w(k) * p / (q (k+1)),     w(k-1) = w(k) * q k / p          *)
(* evaluated with outward rounding from w(k0) = S:                         *)
(*     lo(k) <= S * pmf(k) / pmf(k0) <= hi(k).                             *)
(* Beyond K (where the ratio is <= 1/2) the remaining tail is at most the  *)
(* last upper weight.  The cumulative probability of n is A / (A + B) with *)
(* A = sum over k <= n, B = sum over k > n, so                             *)
(*   CDF(n) >= 1 - eps   <=>   B * (ed - en) <= A * en      (eps = en/ed)  *)
(* and the (1 - eps)-quantile lies in [QLo, QHi]:                          *)
(*   QLo = least n for which the inequality can hold (A upper, B lower),   *)
(*   QHi = least n for which it must hold        (A lower, B upper).       *)
(***************************************************************************)
EXTENDS RtaBase

S == 200000

\* weights from the mode upwards: sequence for k = k0, k0+1, ..., K
RECURSIVE UpR(_, _, _, _, _, _)
UpR(p, q, k, K, acc, up) ==
    IF k = K THEN acc
    ELSE LET w == acc[Len(acc)]
             nx == IF up THEN CeilDiv(w * p, q * (k + 1)) ELSE (w * p) \div (q * (k + 1))
         IN UpR(p, q, k + 1, K, Append(acc, nx), up)

\* weights from the mode downwards: sequence for k = k0, k0-1, ..., 0
RECURSIVE DownR(_, _, _, _, _)
DownR(p, q, k, acc, up) ==
    IF k = 0 THEN acc
    ELSE LET w == acc[Len(acc)]
             nx == IF up THEN CeilDiv(w * q * k, p) ELSE (w * q * k) \div p
         IN DownR(p, q, k - 1, Append(acc, nx), up)

Mode(p, q) == p \div q
\* last index considered: beyond it the ratio p / (q (k+1)) is <= 1/2
LastK(p, q) == 2 * (p \div q) + 24

\* weight tables as functions on 0..K: [lo |-> .., hi |-> ..]
Weights(p, q) ==
    LET k0 == Mode(p, q)
        K == LastK(p, q)
        upHi == UpR(p, q, k0, K, <<S>>, TRUE)
        upLo == UpR(p, q, k0, K, <<S>>, FALSE)
        dnHi == DownR(p, q, k0, <<S>>, TRUE)
        dnLo == DownR(p, q, k0, <<S>>, FALSE)
    IN [lo |-> [k \in 0..K |-> IF k >= k0 THEN upLo[k - k0 + 1] ELSE dnLo[k0 - k + 1]],
        hi |-> [k \in 0..K |-> IF k >= k0 THEN upHi[k - k0 + 1] ELSE dnHi[k0 - k + 1]],
        K |-> K]

\* prefix sums A(n) = sum_{k <= n} and suffix sums B(n) = sum_{k > n} (+ tail bound for hi)
PrefixSums(f, K) ==
    LET RECURSIVE R(_, _)
        R(k, acc) == IF k > K THEN acc ELSE R(k + 1, Append(acc, acc[Len(acc)] + f[k]))
    IN Tail(R(0, <<0>>))       \* element n+1 = A(n)

\* the interval [QLo, QHi] containing the (1 - en/ed)-quantile for mean p/q
QuantileInterval(p, q, en, ed) ==
    LET W == Weights(p, q)
        K == W.K
        Alo == PrefixSums(W.lo, K)
        Ahi == PrefixSums(W.hi, K)
        totLo == Alo[K + 1]
        totHi == Ahi[K + 1] + W.hi[K]          \* + geometric tail beyond K
        \* n \in 0..K ;  B_lo(n) = totLo - Alo(n),  B_hi(n) = totHi - Ahi(n)  (note: B_hi uses A_hi of the same weights)
        Can(n) == (totLo - Alo[n + 1]) <= (Ahi[n + 1] * en) \div (ed - en)
        Must(n) == (totHi - Ahi[n + 1]) <= (Alo[n + 1] * en) \div (ed - en)
    IN <<Least(Can, 0, K), Least(Must, 0, K)>>

\* pmf values recorded in units of 10^-5 (u[k+1] = round(pmf(k) * 10^5)): the recurrence
\* pmf(k+1) (k+1) q = pmf(k) p holds up to the rounding of the two recorded values, and the
\* values sum up to 1 up to rounding and the neglected tail
PmfConsistent(u, p, q) ==
    /\ \A i \in 1..(Len(u) - 1) :
          LET lhs == u[i + 1] * i * q          \* k = i - 1, so k + 1 = i
              rhs == u[i] * p
              tol == (i * q + p) \div 2 + 1
          IN lhs - rhs <= tol /\ rhs - lhs <= tol
    /\ LET tot == SumSeq(u) IN tot <= 100000 + Len(u) /\ tot >= 100000 - Len(u) - 50
=============================================================================
