SPECIFICATION Spec
POSTCONDITION TraceConsumed
CHECK_DEADLOCK FALSE
