---------------------------- MODULE TraceSupply ----------------------------
(***************************************************************************)
(* Event family "sbf" (property C09, conformance part): tables recorded    *)
(* from provided_service / service_time (specialised and the trait's       *)
(* default inverse) are accepted iff they are the closed form of           *)
(* Supply.tla and have the structural properties C09 names.                *)
(* A panic / hang outcome is never a behaviour of the specification.       *)
(***************************************************************************)
EXTENDS Supply

SbfChecks == {"returns", "zero", "monotone", "lipschitz", "closed_form",
              "inverse", "inverse_default", "inverse_of_recorded"}

SbfCheck(c, e) ==
    LET s == e.in.supply
        o == e.out
        returned == "sbf" \in DOMAIN o
    IN CASE c = "returns" -> returned
       [] ~returned -> TRUE          \* reported once, under "returns"
       [] c = "zero" -> At(o.sbf, 0) = 0
       [] c = "monotone" -> IsMonotone(o.sbf)
       [] c = "lipschitz" -> IsLipschitz1(o.sbf)
       [] c = "closed_form" -> \A x \in 0..e.in.H : At(o.sbf, x) = Sbf(s, x)
       [] c = "inverse" ->
            \A dm \in 0..e.in.Dm :
               LET t == At(o.st, dm)
               IN Sbf(s, t) >= dm /\ (t = 0 \/ Sbf(s, t - 1) < dm)
       [] c = "inverse_default" ->
            \A dm \in 0..e.in.Dm :
               LET t == At(o.std, dm)
               IN Sbf(s, t) >= dm /\ (t = 0 \/ Sbf(s, t - 1) < dm)
       \* the same statement on the recorded table itself, where it reaches
       [] c = "inverse_of_recorded" ->
            \A dm \in 0..e.in.Dm :
               LET t == At(o.st, dm)
               IN t <= e.in.H =>
                    /\ At(o.sbf, t) >= dm
                    /\ (t = 0 \/ At(o.sbf, t - 1) < dm)
                    /\ (SP(s) <= 40 => t = ServiceTime(s, dm))

SupplyFails(e) == {c \in SbfChecks : ~SbfCheck(c, e)}

\* op "sbf_points": isolated (large) arguments: in.xs interval lengths, in.ds demands
SbfPointsFails(e) ==
    IF "sbf" \notin DOMAIN e.out THEN {"returns"}
    ELSE LET s == e.in.supply
             IsInv(t, dm) == Sbf(s, t) >= dm /\ (t = 0 \/ Sbf(s, t - 1) < dm)
         IN (IF \A i \in 1..Len(e.in.xs) : e.out.sbf[i] = Sbf(s, e.in.xs[i]) THEN {} ELSE {"closed_form"})
            \cup (IF \A i \in 1..Len(e.in.ds) : IsInv(e.out.st[i], e.in.ds[i]) THEN {} ELSE {"inverse"})
            \cup (IF \A i \in 1..Len(e.in.ds) : IsInv(e.out.std[i], e.in.ds[i]) THEN {} ELSE {"inverse_default"})

\* op "sbf_equiv": two supplies that C09 declares equal
SbfEquivFails(e) ==
    IF "a" \notin DOMAIN e.out THEN {"returns"}
    ELSE (IF e.out.a = e.out.b THEN {} ELSE {"equal_tables"})
         \cup (IF e.out.sta = e.out.stb THEN {} ELSE {"equal_inverse"})
=============================================================================
