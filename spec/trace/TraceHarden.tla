---------------------------- MODULE TraceHarden ----------------------------
(***************************************************************************)
(* C17 as a state machine.  The state is the vector of results of all      *)
(* analyses for the current system (a function analysis-name -> result).   *)
(* Actions:                                                                *)
(*   Reset       a new base system is analysed                             *)
(*   Harden      one parameter is made harder (WCET+, jitter+, period-,     *)
(*               blocking+, interfering NP segment+, task added, supply    *)
(*               weakened): no result may improve -- Err is the top        *)
(*               element, so Err never turns into Ok                       *)
(*   RaiseLimit  the divergence limit grows: an Ok result is unchanged     *)
(*               (an Err may stay or become Ok)                            *)
(* The recorded walk of the implementation is replayed line by line; a     *)
(* line that is not a step of this machine is reported (REJECT) and the    *)
(* walk continues from the recorded state.                                 *)
(***************************************************************************)
EXTENDS FixedPoint, Json, IOUtils

Rec == ndJsonDeserialize(IOEnv.TRACE)

VARIABLES l, cur, nbad
vars == <<l, cur, nbad>>

Proper(r) == IsOk(r) \/ IsErr(r)          \* neither panic nor hang
\* a panic is "no claim": it is comparable with nothing and constrains nothing
Mono(a, b) == (Proper(a) /\ Proper(b)) => ResLeq(a, b)
Stable(a, b) == (Proper(a) /\ Proper(b) /\ IsOk(a)) => (IsOk(b) /\ b.ok = a.ok)

Common(a, b) == DOMAIN a \cap DOMAIN b

HardenFails(e) == {n \in Common(cur, e.res) : ~Mono(cur[n], e.res[n])}
RaiseFails(e) == {n \in Common(cur, e.res) : ~Stable(cur[n], e.res[n])}

Init == l = 1 /\ cur = [none |-> [ok |-> 0]] /\ nbad = 0

Step(e, f) ==
    /\ cur' = e.res
    /\ nbad' = nbad + (IF f = {} THEN 0 ELSE 1)
    /\ (f # {}) => PrintT("REJECT " \o ToString(l) \o " " \o e.op \o " " \o ToString(f))

Reset == Rec[l].op = "reset" /\ Step(Rec[l], {})
Harden == Rec[l].op = "harden" /\ Step(Rec[l], HardenFails(Rec[l]))
RaiseLimit == Rec[l].op = "raise_limit" /\ Step(Rec[l], RaiseFails(Rec[l]))

Next ==
    /\ l <= Len(Rec)
    /\ (Reset \/ Harden \/ RaiseLimit)
    /\ (l = Len(Rec)) => PrintT("TRACE-END " \o ToString(Len(Rec)) \o " " \o ToString(nbad'))
    /\ l' = l + 1

Spec == Init /\ [][Next]_vars

\* the design-level statement of C17 on this machine
MonoProperty == [][(l <= Len(Rec) /\ Rec[l].op = "harden") => HardenFails(Rec[l]) = {}]_vars

TraceConsumed == TLCGet("stats").diameter - 1 = Len(Rec)
=============================================================================
