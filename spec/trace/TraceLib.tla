------------------------------ MODULE TraceLib ------------------------------
(***************************************************************************)
(* Trace specification for the families of *independent* events recorded   *)
(* from the implementation (DESIGN.md §2.2).  One line of the ndjson trace *)
(* = one public call (or one table of calls) with its recorded outcome.    *)
(* Next consumes exactly one line per step; a line is ACCEPTED iff the     *)
(* set of failed named checks of its family is empty.  A rejected line is  *)
(* reported ("REJECT <line> <op> <failed checks>") and does not block the  *)
(* rest of the trace, so one finding cannot hide another.                  *)
(***************************************************************************)
EXTENDS RtaBase, Json, IOUtils, TraceSupply, TraceArrival, TraceCost, TraceAnalyses

Rec == ndJsonDeserialize(IOEnv.TRACE)

VARIABLES l, nbad
vars == <<l, nbad>>

\* C20: the same call recorded from a dev build (debug assertions, overflow checks) and from a
\* release build: both must return (a panic or a hang is not a behaviour of the specification)
\* and must return the same value
Returned(o) == ~("panic" \in DOMAIN o \/ "hang" \in DOMAIN o)
TotalFails(e) ==
    (IF "only" \in DOMAIN e.out THEN {"recorded_in_both_profiles"} ELSE
       (IF Returned(e.out.dev) THEN {} ELSE {"dev_build_returns"})
       \cup (IF Returned(e.out.rel) THEN {} ELSE {"release_build_returns"})
       \cup (IF Returned(e.out.dev) /\ Returned(e.out.rel) /\ e.out.dev # e.out.rel THEN {"same_result_in_both_profiles"} ELSE {}))

Fails(e) ==
    CASE e.op = "sbf" -> SupplyFails(e)
      [] e.op = "sbf_equiv" -> SbfEquivFails(e)
      [] e.op = "sbf_points" -> SbfPointsFails(e)
      [] e.op = "eta" -> EtaFails(e)
      [] e.op = "eta_points" -> EtaPointsFails(e)
      [] e.op = "jit_compose" -> JitComposeFails(e)
      [] e.op = "steps" -> StepsFails(e)
      [] e.op = "poisson" -> PoissonFails(e)
      [] e.op = "poisson_pmf" -> PoissonPmfFails(e)
      [] e.op = "curve_trace" -> CurveTraceFails(e)
      [] e.op = "derive" -> DeriveFails(e)
      [] e.op = "dmin_iter" -> DminIterFails(e)
      [] e.op = "curve_ext" -> CurveExtFails(e)
      [] e.op = "cost" -> CostFails(e)
      [] e.op = "demand" -> DemandFails(e)
      [] e.op = "inverse_trace" -> InverseTraceFails(e)
      [] e.op = "search" -> SearchFails(e)
      [] e.op = "search_trace" -> SearchTraceFails(e)
      [] e.op = "maxrt" -> MaxRtFails(e)
      [] e.op = "rta" -> RtaFails(e)
      [] e.op \in {"ros2_es", "ros2_timer", "ros2_pp", "ros2_chain", "ros2_rr", "ros2_bw"} -> Ros2Fails(e)
      [] e.op = "total" -> TotalFails(e)
      [] e.op = "agree" -> AgreeFails(e)
      [] e.op = "agree_max" -> AgreeMaxFails(e)
      [] e.op = "cost_trace" -> CostTraceFails(e)
      [] e.op = "cost_ext" -> CostExtFails(e)
      [] OTHER -> {"unknown_op"}

Init == l = 1 /\ nbad = 0

Next ==
    /\ l <= Len(Rec)
    /\ LET e == Rec[l]
           f == Fails(e)
       IN /\ nbad' = nbad + (IF f = {} THEN 0 ELSE 1)
          /\ (f # {}) => PrintT("REJECT " \o ToString(l) \o " " \o e.op \o " " \o ToString(f))
    /\ (l = Len(Rec)) => PrintT("TRACE-END " \o ToString(Len(Rec)) \o " " \o ToString(nbad'))
    /\ l' = l + 1

Spec == Init /\ [][Next]_vars

\* every line was consumed (one state per line plus the initial state)
TraceConsumed == TLCGet("stats").diameter - 1 = Len(Rec)
=============================================================================
