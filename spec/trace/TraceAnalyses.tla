--------------------------- MODULE TraceAnalyses ---------------------------
(***************************************************************************)
(* Event families about the fixed-point search (C08) and the nine          *)
(* dedicated-processor analyses (C06, C19).                                *)
(***************************************************************************)
EXTENDS Analyses, Supply, Ros2Analyses

\* ---- C08 -------------------------------------------------------------------
\* supplies incl. the user-defined staircase (pattern of 0/1 service per tick, repeated)
StairSbf(pat, t) ==
    LET n == Len(pat)
    IN (t \div n) * SumSeq(pat) + SumSeq(SubSeq(pat, 1, t % n))
AnySbf(s, t) == IF s.k = "stair" THEN StairSbf(s.pattern, t) ELSE Sbf(s, t)

\* ---- C09: the trait's default service_time, observed ---------------------------
\* op "inverse_trace": for each demand d the interval lengths a[1..n] the default implementation asked the supply about.
\* It must be a run of the machine of MCDefaultInverse: start at t = d; while S(t) < d jump ahead by the missing
\* service d - S(t); return the first t with S(t) >= d -- which, S being 1-Lipschitz, is the least such t.
InverseRunFails(sup, r) ==
    LET a == r.asked
        n == Len(a)
        S(t) == AnySbf(sup, t)
    IN (IF n >= 1 /\ a[1] = r.d THEN {} ELSE {"starts_at_the_demand"})
       \cup (IF \A i \in 1..(n - 1) : S(a[i]) < r.d /\ a[i + 1] = a[i] + (r.d - S(a[i])) THEN {} ELSE {"jumps_ahead_by_the_missing_service"})
       \cup (IF n >= 1 /\ S(a[n]) >= r.d /\ r.t = a[n] THEN {} ELSE {"returns_the_first_sufficient_length"})
       \cup (IF S(r.t) >= r.d /\ (r.t = 0 \/ S(r.t - 1) < r.d) THEN {} ELSE {"is_the_least_sufficient_length"})
InverseTraceFails(e) ==
    IF "runs" \notin DOMAIN e.out THEN {"returns"}
    ELSE UNION {InverseRunFails(e.in.supply, e.out.runs[i]) : i \in 1..Len(e.out.runs)}

\* the workload is a table w[1..n], constant beyond n
TabW(w, x) == w[MinOf(x, Len(w))]

SearchExpected(inp) ==
    ResultOf(Lfp(LAMBDA x : TabW(inp.w, x), LAMBDA t : AnySbf(inp.supply, t), inp.off, inp.lim), inp.off, inp.lim)

SearchFails(e) ==
    IF "panic" \in DOMAIN e.out \/ "hang" \in DOMAIN e.out THEN {"returns"}
    ELSE LET exp == SearchExpected(e.in)
         IN (IF IsOk(exp) = IsOk(e.out) THEN {} ELSE {"ok_iff_fixed_point_within_limit"})
            \cup (IF IsOk(exp) /\ IsOk(e.out) /\ exp.ok # e.out.ok THEN {"least_solution"} ELSE {})
            \cup (IF IsErr(exp) /\ IsErr(e.out) /\ exp # e.out THEN {"error_payload"} ELSE {})

\* op "search_trace": out.asked = the interval lengths the implementation asked the workload about, in order -- the
\* iteration it actually ran.  It must be a run of the machine of MCFixedPoint: start at 1; the next assumed response
\* time is (least t with S(t) >= W(current)) - offset, which, S being monotone and 1-Lipschitz, is characterised by
\* S(t) >= w /\ S(t - 1) < w; stop with Ok as soon as that value no longer exceeds the current one, with Err as soon as
\* it exceeds the limit.  (That such a run ends in Lfp is the theorem model-checked in MCFixedPoint.)
SearchTraceFails(e) ==
    IF "asked" \notin DOMAIN e.out THEN {"returns"}
    ELSE LET a == e.out.asked
             n == Len(a)
             off == e.in.off
             lim == e.in.lim
             W(x) == TabW(e.in.w, x)
             S(t) == AnySbf(e.in.supply, t)
             IsInverse(t, dm) == t >= 0 /\ S(t) >= dm /\ (t = 0 \/ S(t - 1) < dm)
             res == e.out.res
         IN (IF n >= 1 /\ a[1] = 1 THEN {} ELSE {"starts_at_one"})
            \cup (IF \A i \in 1..(n - 1) : a[i] <= lim /\ a[i + 1] > a[i] /\ IsInverse(a[i + 1] + off, W(a[i]))
                  THEN {} ELSE {"each_iterate_is_the_supply_inverse_of_the_workload"})
            \cup (IF n = 0 THEN {}
                  ELSE IF IsOk(res)
                       THEN (IF a[n] <= lim /\ res.ok <= a[n] /\ IsInverse(res.ok + off, W(a[n])) THEN {} ELSE {"stops_at_the_first_non_increase"})
                       ELSE (IF a[n] <= lim /\ S(off + lim) < W(a[n]) THEN {} ELSE {"gives_up_only_beyond_the_limit"}))
            \cup (LET exp == SearchExpected(e.in)
                  IN IF IsOk(exp) = IsOk(res) /\ (IsOk(exp) => exp.ok = res.ok) THEN {} ELSE {"least_solution"})

MaxRtFails(e) ==
    IF "panic" \in DOMAIN e.out \/ "hang" \in DOMAIN e.out THEN {"returns"}
    ELSE IF e.out = MaxResponseTime(e.in.rs) THEN {} ELSE {"first_error_else_max"}

\* ---- C06 -------------------------------------------------------------------
\* scenarios taken from the repository's own unit tests carry the value pinned there (in.expect, -1 = no bound):
\* the defining equations of this specification must evaluate to it (a check of the specification against an
\* oracle that is independent of both the library's search code and this module)
RtaSuiteFails(e, v) ==
    IF "expect" \notin DOMAIN e.in THEN {}
    ELSE IF (v = NONE /\ e.in.expect = -1) \/ (v # NONE /\ v = e.in.expect) THEN {}
    ELSE {"spec_reproduces_pinned_suite_value"}

RtaFails(e) ==
    IF "panic" \in DOMAIN e.out \/ "hang" \in DOMAIN e.out THEN {"returns"}
    ELSE LET v == RtaDef(e.in)
         IN RtaSuiteFails(e, v) \cup
            (IF v = NONE
             THEN (IF IsErr(e.out) THEN {} ELSE {"err_iff_no_fixed_point"})
             ELSE (IF IsOk(e.out) THEN (IF e.out.ok = v THEN {} ELSE {"equals_exhaustive_evaluation"})
                   ELSE {"err_iff_no_fixed_point"}))

\* ---- C07 -------------------------------------------------------------------
\* the least-WCET term of the callback under analysis must not exceed the smallest job cost that its
\* own job_cost_iter yields for the interval (it is subtracted from the assumed response time)
OwnLwOk(dm) == \A i \in 1..Len(dm.lw) : (dm.mj[i] > 0) => dm.lw[i] <= dm.mj[i]
Ros2LwFails(e) ==
    CASE e.op \in {"ros2_timer", "ros2_pp"} -> IF OwnLwOk(e.in.own) THEN {} ELSE {"own_least_wcet_not_above_smallest_job"}
      [] e.op = "ros2_chain" -> IF OwnLwOk(e.in.last) THEN {} ELSE {"own_least_wcet_not_above_smallest_job"}
      [] OTHER -> {}

Ros2Fails(e) ==
    IF "panic" \in DOMAIN e.out \/ "hang" \in DOMAIN e.out THEN {"returns"}
    ELSE Ros2LwFails(e) \cup
         RtaSuiteFails(e, Ros2Def(e.op, e.in)) \cup
         LET v == Ros2Def(e.op, e.in)
             agrees == IF v = NONE THEN IsErr(e.out) ELSE (IsOk(e.out) /\ e.out.ok = v)
         IN IF agrees THEN {}
            ELSE IF e.op \in {"ros2_es", "ros2_timer", "ros2_pp", "ros2_chain"}
                    /\ LET vs == Ros2StepsOnly(e.op, e.in)
                       IN IF vs = NONE THEN IsErr(e.out) ELSE (IsOk(e.out) /\ e.out.ok = vs)
                 \* the value is the one obtained when only the demand's step offsets are examined, and an
                 \* offset that is NOT a step attains more: the pruning of the search space is not lossless here
                 THEN {"step_pruning_loses_offsets"}
                 ELSE IF v = NONE \/ IsErr(e.out) THEN {"err_iff_no_fixed_point"} ELSE {"equals_exhaustive_evaluation"}

\* ---- C19 -------------------------------------------------------------------
\* two calls that model the same system: same Ok value / both Err
SameResult(a, b) == (IsOk(a) /\ IsOk(b) /\ a.ok = b.ok) \/ (IsErr(a) /\ IsErr(b))
\* Event source versus FIFO on a dedicated processor, with the recorded request-bound table tab (index x+1 = demand of
\* a window of length x): both maximise V(A) = demand(A + 1) - A over the offsets A of the busy window of length
\* L = least x >= 1 with demand(x) <= x; fifo::dedicated_uniproc_rta takes A < L, ros2::rta_event_source takes A <= L.
\* The two differ exactly when the demand steps at offset L itself (possible only if the bound is not sub-additive).
EsFifoBoundary(e) ==
    LET tab == e.in.tab
        Dm(x) == tab[MinOf(x, Len(tab) - 1) + 1]
        Ls == {x \in 1..e.in.lim : Dm(x) <= x}
    IN IF Ls = {} \/ ~(IsOk(e.out.rs[1]) /\ IsOk(e.out.rs[2])) THEN FALSE
       ELSE LET L == SetMin(Ls)
                V(A) == Dm(A + 1) - A
                excl == SetMax({V(A) : A \in 0..(L - 1)})
                incl == MaxOf(excl, V(L))
            IN e.out.rs[2].ok = excl /\ e.out.rs[1].ok = incl /\ incl > excl

AgreeFails(e) ==
    IF "rs" \notin DOMAIN e.out THEN {"returns"}
    ELSE IF \E i \in 1..Len(e.out.rs) : ("panic" \in DOMAIN e.out.rs[i] \/ "hang" \in DOMAIN e.out.rs[i])
    THEN {"returns"}
    ELSE IF \A i \in 2..Len(e.out.rs) : SameResult(e.out.rs[1], e.out.rs[i]) THEN {}
    ELSE IF e.in.family = "event_source_eq_fifo_on_dedicated" /\ "tab" \in DOMAIN e.in /\ EsFifoBoundary(e)
    THEN {"event_source_counts_the_offset_at_the_busy_window_end"}
    ELSE {e.in.family}

\* equal relative deadlines: the largest NP-EDF bound over all tasks = the FIFO bound
AgreeMaxFails(e) ==
    IF "fifo" \notin DOMAIN e.out THEN {"returns"} ELSE
    LET all == <<e.out.fifo>> \o e.out.np
    IN IF \E i \in 1..Len(all) : ("panic" \in DOMAIN all[i] \/ "hang" \in DOMAIN all[i]) THEN {"returns"}
       ELSE IF SameResult(e.out.fifo, MaxResponseTime(e.out.np)) THEN {} ELSE {e.in.family}
=============================================================================
