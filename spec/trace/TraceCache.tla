----------------------------- MODULE TraceCache -----------------------------
(***************************************************************************)
(* Replays recorded histories of operations on shared ExtrapolatingCurve   *)
(* clones (arrival and wcet) through the CurveCache machine.  Sessions     *)
(* start with a "new" event carrying the original prefix.  Events:         *)
(*   new      kind "arrival" | "wcet", d (the original prefix)             *)
(*   q        number_arrivals / cost_of_jobs on some clone: arg, ans       *)
(*   least    least_wcet on some clone: arg, ans                           *)
(*   it_new   a new steps_iter / job_cost_iter on some clone: it           *)
(*   it_next  next() on iterator it: ans                                   *)
(* ans = -1 records a panic (e.g. a RefCell borrow error).                 *)
(* A line is accepted iff its answer is the answer of an eagerly           *)
(* extrapolated curve (history independence) -- and the machine, stepped   *)
(* along the same history, agrees with that too.                           *)
(***************************************************************************)
EXTENDS CurveCache, Json, IOUtils

Rec == ndJsonDeserialize(IOEnv.TRACE)

VARIABLES l, kind, orig, cache, its, nbad
vars == <<l, kind, orig, cache, its, nbad>>

Init == l = 1 /\ kind = "none" /\ orig = <<1>> /\ cache = <<1>> /\ its = << >> /\ nbad = 0

Report(e, f) ==
    /\ nbad' = nbad + (IF f = {} THEN 0 ELSE 1)
    /\ (f # {}) => PrintT("REJECT " \o ToString(l) \o " " \o e.op \o " " \o ToString(f))

New(e) ==
    /\ e.op = "new"
    /\ kind' = e.kind /\ orig' = e.d /\ cache' = e.d /\ its' = << >>
    /\ Report(e, {})

\* iterator positions: arrival <<dist, njobs>> (or <<-1, j>> for the degenerate single-entry prefix), wcet <<n>>
ItNew(e) ==
    /\ e.op = "it_new"
    /\ its' = Append(its, IF kind = "arrival" THEN (IF CanExtrapolate(cache) THEN <<0, 0>> ELSE <<-1, 0>>) ELSE <<0>>)
    /\ Report(e, IF e.ans = -1 THEN {"returns"} ELSE IF e.it = Len(its') THEN {} ELSE {"iterator_numbering"})
    /\ UNCHANGED <<kind, orig, cache>>

Query(e) ==
    /\ e.op = "q"
    /\ LET r == IF kind = "arrival" THEN QueryEta(cache, e.arg) ELSE QueryCost(cache, e.arg)
           eager == IF kind = "arrival" THEN EagerEta(orig, e.arg) ELSE EagerCost(orig, e.arg)
       IN /\ cache' = r[2]
          /\ Report(e, (IF e.ans = -1 THEN {"returns"} ELSE {})
                       \cup (IF e.ans # -1 /\ e.ans # eager THEN {"equals_fresh_eager_curve"} ELSE {})
                       \cup (IF r[1] # eager THEN {"spec_machine_not_history_independent"} ELSE {}))
    /\ UNCHANGED <<kind, orig, its>>

LeastOp(e) ==
    /\ e.op = "least"
    /\ Report(e, (IF e.ans = -1 THEN {"returns"} ELSE {})
                 \cup (IF e.ans # -1 /\ e.ans # EagerLeastWcet(orig, e.arg) THEN {"equals_fresh_eager_curve"} ELSE {})
                 \cup (IF LeastWcet(cache, e.arg) # EagerLeastWcet(orig, e.arg) THEN {"spec_machine_not_history_independent"} ELSE {}))
    /\ UNCHANGED <<kind, orig, cache, its>>

ItNext(e) ==
    /\ e.op = "it_next"
    /\ LET pos == its[e.it]
       IN IF kind = "arrival"
          THEN IF pos[1] = -1
               THEN \* degenerate single-entry prefix: the periodic process it implies
                    /\ its' = [its EXCEPT ![e.it] = <<-1, pos[2] + 1>>]
                    /\ cache' = cache
                    /\ Report(e, IF e.ans = -1 THEN {"returns"}
                                 ELSE IF e.ans = orig[1] * pos[2] + 1 THEN {} ELSE {"equals_fresh_eager_curve"})
               ELSE LET r == IterNext(cache, pos)
                        \* the eager stream: the k-th increase point of the eager table
                        k == e.k
                        H == r[1] + 1
                        st == EagerSteps(orig, H)
                        eagerOk == r[1] \in st /\ Cardinality({x \in st : x <= r[1]}) = k
                    IN /\ its' = [its EXCEPT ![e.it] = r[3]]
                       /\ cache' = r[2]
                       /\ Report(e, (IF e.ans = -1 THEN {"returns"} ELSE {})
                                    \cup (IF e.ans # -1 /\ e.ans # r[1] THEN {"equals_fresh_eager_curve"} ELSE {})
                                    \cup (IF ~eagerOk THEN {"spec_machine_not_history_independent"} ELSE {}))
          ELSE \* wcet job_cost_iter: n-th item = cost(n) - cost(n-1)
               LET n == pos[1] + 1
                   r1 == QueryCost(cache, n)
                   r0 == QueryCost(r1[2], n - 1)
                   eager == EagerCost(orig, n) - EagerCost(orig, n - 1)
               IN /\ its' = [its EXCEPT ![e.it] = <<n>>]
                  /\ cache' = r0[2]
                  /\ Report(e, (IF e.ans = -1 THEN {"returns"} ELSE {})
                               \cup (IF e.ans # -1 /\ e.ans # eager THEN {"equals_fresh_eager_curve"} ELSE {})
                               \cup (IF r1[1] - r0[1] # eager THEN {"spec_machine_not_history_independent"} ELSE {}))
    /\ UNCHANGED <<kind, orig>>

Next ==
    /\ l <= Len(Rec)
    /\ LET e == Rec[l] IN New(e) \/ Query(e) \/ LeastOp(e) \/ ItNew(e) \/ ItNext(e)
    /\ (l = Len(Rec)) => PrintT("TRACE-END " \o ToString(Len(Rec)) \o " " \o ToString(nbad'))
    /\ l' = l + 1

Spec == Init /\ [][Next]_vars
TraceConsumed == TLCGet("stats").diameter - 1 = Len(Rec)
=============================================================================
