------------------------------ MODULE TraceCost ------------------------------
(***************************************************************************)
(* Event families about job-cost models (C14) and request-bound functions  *)
(* (C16) recorded from the implementation.                                 *)
(***************************************************************************)
EXTENDS Wcet

CostChecks == {"returns", "zero", "monotone", "prefix_sums", "least_wcet", "spec_value",
               "prefix_exact", "above_closure"}

CostCheck(c, e) ==
    LET m == e.in.c
        o == e.out
        N == e.in.N
        returned == "cost" \in DOMAIN o
    IN CASE c = "returns" -> returned
       [] ~returned -> TRUE
       [] c = "zero" -> At(o.cost, 0) = 0
       [] c = "monotone" -> IsMonotone(o.cost)
       \* cost_of_jobs(n) = sum of the first n items of job_cost_iter
       [] c = "prefix_sums" -> \A n \in 0..N : At(o.cost, n) = SumSeq(SubSeq(o.items, 1, n))
       \* least_wcet(n) is no larger than any of the first n items (and 0 for n = 0)
       [] c = "least_wcet" ->
            /\ At(o.least, 0) = 0
            /\ \A n \in 1..N : \A i \in 1..n : At(o.least, n) <= o.items[i]
       [] c = "spec_value" -> HasSpecCost(m) => o.cost = CostTable(m, N)
       \* a cumulative-cost prefix is reproduced exactly ...
       [] c = "prefix_exact" ->
            (m.k = "wcurve") => \A n \in 1..MinOf(N, Len(m.w)) : At(o.cost, n) = m.w[n]
       \* ... and beyond it the bound never drops below the tightest sound bound
       [] c = "above_closure" ->
            (m.k \in {"wcurve", "wxcurve"} /\ "w" \in DOMAIN e.in /\ Len(e.in.w) >= 1) =>
                LET cl == CostClosure(e.in.w, N)
                IN \A n \in 1..N : At(o.cost, n) >= cl[n]

CostFails(e) == {c \in CostChecks : ~CostCheck(c, e)}

\* ---- WCET curves inferred from traces, extrapolation (C14) ------------------
\* op "cost_trace": in.costs = the observed job costs, in.n = max_n, out.cost = table 0..N
CostTraceChecks == {"returns", "dominates_runs", "zero", "monotone"}
CostTraceCheck(c, e) ==
    LET o == e.out
        tr == e.in.costs
        returned == "cost" \in DOMAIN o
    IN CASE c = "returns" -> returned
       [] ~returned -> TRUE
       [] c = "zero" -> At(o.cost, 0) = 0
       [] c = "monotone" -> IsMonotone(o.cost)
       \* every run of n consecutive jobs of the trace costs at most cost_of_jobs(n),
       \* also for n beyond the recorded prefix
       [] c = "dominates_runs" ->
            \A n \in 1..MinOf(Len(tr), e.in.N) : At(o.cost, n) >= MaxRun(tr, n)
CostTraceFails(e) == {c \in CostTraceChecks : ~CostTraceCheck(c, e)}

\* op "cost_ext": in.w = cumulative prefix, in.n = argument of extrapolate, optional in.costs
\* (trace the prefix was inferred from); out.orig / out.ext = tables 0..N before / after
CostExtChecks == {"returns", "never_raises", "never_raises_beyond", "prefix_unchanged", "above_closure", "dominates_runs"}
\* number of entries of the prefix after extrapolate(n): it only acts on prefixes of >= 3 entries
CostExtLen(e) == IF Len(e.in.w) >= 3 THEN MaxOf(Len(e.in.w), e.in.n - 1) ELSE Len(e.in.w)
CostExtCheck(c, e) ==
    LET o == e.out
        returned == "ext" \in DOMAIN o
        N == e.in.N
    IN CASE c = "returns" -> returned
       [] ~returned -> TRUE
       \* inside the extended prefix ...
       [] c = "never_raises" -> \A n \in 0..MinOf(N, CostExtLen(e)) : At(o.ext, n) <= At(o.orig, n)
       \* ... and beyond it (where the *extended* prefix is repeated)
       [] c = "never_raises_beyond" -> \A n \in 0..N : (n > CostExtLen(e)) => At(o.ext, n) <= At(o.orig, n)
       [] c = "prefix_unchanged" -> \A n \in 0..MinOf(N, Len(e.in.w)) : At(o.ext, n) = At(o.orig, n)
       [] c = "above_closure" ->
            LET cl == CostClosure(e.in.w, N) IN \A n \in 1..N : At(o.ext, n) >= cl[n]
       [] c = "dominates_runs" ->
            ("costs" \in DOMAIN e.in) =>
               \A n \in 1..MinOf(Len(e.in.costs), N) : At(o.ext, n) >= MaxRun(e.in.costs, n)
CostExtFails(e) == {c \in CostExtChecks : ~CostExtCheck(c, e)}

\* ---- request-bound functions (C16) ---------------------------------------
DemandChecks == {"returns", "rbf_def", "job_sum", "agg_sum", "least_wcet_le_min_job",
                 "byn_monotone", "byn_le_total", "byn_saturates", "byn_n_largest", "per_component"}

DemandCheck(c, e) ==
    LET o == e.out
        returned == "sn" \in DOMAIN o
        H == e.in.H
        ND == Len(e.in.deltas)
    IN CASE c = "returns" -> returned
       [] ~returned -> TRUE
       \* service_needed(delta) = cost of number_arrivals(delta) jobs
       [] c = "rbf_def" ->
            ("eta" \in DOMAIN o) => \A x \in 0..H : At(o.sn, x) = At(o.cost, At(o.eta, x))
       \* job_cost_iter(delta) sums to service_needed(delta)
       [] c = "job_sum" -> \A x \in 0..H : At(o.jsum, x) = At(o.sn, x)
       \* aggregates: sum over components
       [] c = "agg_sum" ->
            ("kids" \in DOMAIN o) =>
               \A x \in 0..H : At(o.sn, x) = SumFn(LAMBDA j : At(o.kids[j].sn, x), Len(o.kids))
       \* least_wcet_in_interval is no larger than the smallest job cost in the interval
       [] c = "least_wcet_le_min_job" ->
            \A x \in 0..H : (At(o.njobs, x) > 0) => At(o.lw, x) <= At(o.minjob, x)
       [] c = "byn_monotone" -> \A i \in 1..ND : IsMonotone(o.byn[i])
       [] c = "byn_le_total" ->
            \A i \in 1..ND : \A n \in 1..Len(o.byn[i]) : o.byn[i][n] <= At(o.sn, e.in.deltas[i])
       [] c = "byn_saturates" ->
            \A i \in 1..ND : \A n \in 0..Horizon(o.byn[i]) :
                (n >= Len(o.jobs[i])) => At(o.byn[i], n) = At(o.sn, e.in.deltas[i])
       \* = sum of the n largest job costs (jobs[i] is recorded in descending order)
       [] c = "byn_n_largest" ->
            \A i \in 1..ND :
               /\ \A j \in 1..(Len(o.jobs[i]) - 1) : o.jobs[i][j] >= o.jobs[i][j + 1]
               /\ \A n \in 0..Horizon(o.byn[i]) :
                    At(o.byn[i], n) = SumSeq(SubSeq(o.jobs[i], 1, MinOf(n, Len(o.jobs[i]))))
       \* per-component variant = sum of the components' restricted demands
       [] c = "per_component" ->
            ("bync" \in DOMAIN o) =>
               \A i \in 1..ND : \A n \in 0..Horizon(o.bync[i]) :
                   At(o.bync[i], n) = SumFn(LAMBDA j : At(o.kids[j].byn[i], n), Len(o.kids))

DemandFails(e) == {c \in DemandChecks : ~DemandCheck(c, e)}
=============================================================================
