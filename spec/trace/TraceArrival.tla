---------------------------- MODULE TraceArrival ----------------------------
(***************************************************************************)
(* Event families about arrival models recorded from the implementation:   *)
(*   "eta"         C10: table of number_arrivals on 0..H                   *)
(*   "jit_compose" C10: jitter a then b  versus  jitter a+b                *)
(*   "steps"       C11: items of steps_iter versus the table of the same   *)
(*                 object (arrival bounds and request bounds)              *)
(***************************************************************************)
EXTENDS Arrival

EtaChecks == {"returns", "zero", "monotone", "dominates_spec", "exact", "subadditive"}

EtaCheck(c, e) ==
    LET m == e.in.m
        o == e.out
        returned == "eta" \in DOMAIN o
    IN CASE c = "returns" -> returned
       [] ~returned -> TRUE
       [] c = "zero" -> At(o.eta, 0) = 0
       [] c = "monotone" -> IsMonotone(o.eta)
       \* never below the specification's bound (which is attained or
       \* compositional-safe, see Arrival.tla) -- hence never undercounting
       [] c = "dominates_spec" ->
            HasSpecEta(m) => LET t == EtaTable(m, e.in.H) IN \A i \in 1..Len(t) : o.eta[i] >= t[i]
       \* Periodic / Sporadic (and the auto-extrapolating curve): the bound is attained, so it
       \* is exactly the tight curve
       [] c = "exact" ->
            (HasSpecEta(m) /\ IsExactKind(m)) => o.eta = EtaTable(m, e.in.H)
       [] c = "subadditive" ->
            (m.k \in {"periodic", "sporadic"}) => IsSubAdditive(o.eta)

EtaFails(e) == {c \in EtaChecks : ~EtaCheck(c, e)}

JitComposeFails(e) ==
    IF "ab" \notin DOMAIN e.out THEN {"returns"}
    ELSE IF e.out.ab = e.out.s THEN {} ELSE {"jitter_adds_up"}

\* ---- steps ---------------------------------------------------------------
StepsChecks == {"returns", "strictly_increasing", "never_zero", "complete", "sound", "offsets_shifted"}

StepsCheck(c, e) ==
    LET o == e.out
        returned == "items" \in DOMAIN o
        H == Horizon(o.tbl)
        got == SeqToSet(o.items)
        incr == IncreasePoints(o.tbl)
    IN CASE c = "returns" -> returned
       [] ~returned -> TRUE
       [] c = "strictly_increasing" -> IsStrictlyIncreasing(o.items)
       [] c = "never_zero" -> 0 \notin got
       \* every increase of the bound within the horizon is reported ...
       [] c = "complete" -> incr \subseteq got
       \* ... and nothing else is
       [] c = "sound" -> {x \in got : x >= 1 /\ x <= H} \subseteq incr
       \* demand::step_offsets = steps shifted by one (request bounds only)
       [] c = "offsets_shifted" ->
            ("offs" \in DOMAIN o) =>
               IF "offs_panic" \in DOMAIN o THEN FALSE
               ELSE /\ Len(o.offs) = Len(o.items)
                    /\ \A i \in 1..Len(o.offs) : o.offs[i] + 1 = o.items[i]

StepsFails(e) == {c \in StepsChecks : ~StepsCheck(c, e)}
=============================================================================
