---------------------------- MODULE TraceArrival ----------------------------
(***************************************************************************)
(* Event families about arrival models recorded from the implementation:   *)
(*   "eta"         C10: table of number_arrivals on 0..H                   *)
(*   "jit_compose" C10: jitter a then b  versus  jitter a+b                *)
(*   "steps"       C11: items of steps_iter versus the table of the same   *)
(*                 object (arrival bounds and request bounds)              *)
(***************************************************************************)
EXTENDS Arrival, Poisson

EtaChecks == {"returns", "zero", "monotone", "dominates_spec", "exact", "subadditive"}

EtaCheck(c, e) ==
    LET m == e.in.m
        o == e.out
        returned == "eta" \in DOMAIN o
    IN CASE c = "returns" -> returned
       [] ~returned -> TRUE
       [] c = "zero" -> At(o.eta, 0) = 0
       [] c = "monotone" -> IsMonotone(o.eta)
       \* never below the specification's bound (which is attained or
       \* compositional-safe, see Arrival.tla) -- hence never undercounting
       [] c = "dominates_spec" ->
            HasSpecEta(m) => LET t == EtaTable(m, e.in.H) IN \A i \in 1..Len(t) : o.eta[i] >= t[i]
       \* Periodic / Sporadic (and the auto-extrapolating curve): the bound is attained, so it
       \* is exactly the tight curve
       [] c = "exact" ->
            (HasSpecEta(m) /\ IsExactKind(m)) => o.eta = EtaTable(m, e.in.H)
       [] c = "subadditive" ->
            (m.k \in {"periodic", "sporadic"}) => IsSubAdditive(o.eta)

EtaFails(e) == {c \in EtaChecks : ~EtaCheck(c, e)}

\* op "eta_points": isolated long intervals (in.xs) for curve-free models: out.eta[i] = number_arrivals(xs[i])
EtaPointsFails(e) ==
    IF "eta" \notin DOMAIN e.out THEN {"returns"}
    ELSE IF ~HasNoCurve(e.in.m) THEN {}
    ELSE IF \A i \in 1..Len(e.in.xs) : e.out.eta[i] = EtaPt(e.in.m, e.in.xs[i]) THEN {} ELSE {"exact_at_long_intervals"}

JitComposeFails(e) ==
    IF "ab" \notin DOMAIN e.out THEN {"returns"}
    ELSE IF e.out.ab = e.out.s THEN {} ELSE {"jitter_adds_up"}

\* ---- steps ---------------------------------------------------------------
StepsChecks == {"returns", "strictly_increasing", "never_zero", "complete", "sound", "offsets_shifted"}

StepsCheck(c, e) ==
    LET o == e.out
        returned == "items" \in DOMAIN o
        H == Horizon(o.tbl)
        got == SeqToSet(o.items)
        incr == IncreasePoints(o.tbl)
    IN CASE c = "returns" -> returned
       [] ~returned -> TRUE
       [] c = "strictly_increasing" -> IsStrictlyIncreasing(o.items)
       [] c = "never_zero" -> 0 \notin got
       \* every increase of the bound within the horizon is reported ...
       [] c = "complete" -> incr \subseteq got
       \* ... and nothing else is
       [] c = "sound" -> {x \in got : x >= 1 /\ x <= H} \subseteq incr
       \* demand::step_offsets = steps shifted by one (request bounds only)
       [] c = "offsets_shifted" ->
            ("offs" \in DOMAIN o) =>
               IF "offs_panic" \in DOMAIN o THEN FALSE
               ELSE /\ Len(o.offs) = Len(o.items)
                    /\ \A i \in 1..Len(o.offs) : o.offs[i] + 1 = o.items[i]

StepsFails(e) == {c \in StepsChecks : ~StepsCheck(c, e)}

\* ---- C15: approximated Poisson bound -----------------------------------------
\* op "poisson": in.rate = <<ln, ld>>, in.eps = <<en, ed>>, in.deltas increasing (first 0); out.n
\* optional in.jitter: the model is queried through clone_with_jitter(j), i.e. a non-empty window of
\* length d may contain what the process releases in a window of length d + j
PoissonJitter(e) == IF "jitter" \in DOMAIN e.in THEN e.in.jitter ELSE 0
PoissonChecks == {"terminates", "zero_at_zero", "monotone", "is_quantile"}
PoissonCheck(c, e) ==
    LET o == e.out
        returned == "n" \in DOMAIN o
    IN CASE c = "terminates" -> returned
       [] ~returned -> TRUE
       [] c = "zero_at_zero" -> \A i \in 1..Len(o.n) : (e.in.deltas[i] = 0) => o.n[i] = 0
       [] c = "monotone" -> \A i \in 1..(Len(o.n) - 1) : o.n[i] <= o.n[i + 1]
       [] c = "is_quantile" ->
            \A i \in 1..Len(o.n) :
               (e.in.deltas[i] > 0) =>
                  LET iv == QuantileInterval(e.in.rate[1] * (e.in.deltas[i] + PoissonJitter(e)), e.in.rate[2], e.in.eps[1], e.in.eps[2])
                  IN iv[1] <= o.n[i] /\ o.n[i] <= iv[2]
PoissonFails(e) == {c \in PoissonChecks : ~PoissonCheck(c, e)}

PoissonPmfFails(e) ==
    IF "u" \notin DOMAIN e.out THEN {"terminates"}
    ELSE IF PmfConsistent(e.out.u, e.in.rate[1] * e.in.delta, e.in.rate[2]) THEN {} ELSE {"is_poisson_pmf"}

\* ---- C12: derived curves ---------------------------------------------------
\* op "curve_trace": in.ev = event instants, in.n = prefix_jobs; out.eta = table 0..H of the inferred curve
CurveTraceChecks == {"returns", "bounds_every_window", "zero", "monotone"}
CurveTraceCheck(c, e) ==
    LET o == e.out
        returned == "eta" \in DOMAIN o
    IN CASE c = "returns" -> returned
       [] ~returned -> TRUE
       [] c = "zero" -> At(o.eta, 0) = 0
       [] c = "monotone" -> IsMonotone(o.eta)
       \* every window of every length (also beyond the recorded prefix) holds at most eta events
       [] c = "bounds_every_window" -> \A dl \in 0..Horizon(o.eta) : WinCount(e.in.ev, dl) <= At(o.eta, dl)
CurveTraceFails(e) == {c \in CurveTraceChecks : ~CurveTraceCheck(c, e)}

\* op "derive": out.src / out.der = tables 0..H of the source and of the derived object,
\* out.covered = interval length up to which they must coincide, in.exact = the source's own
\* table is the tight curve of its process everywhere, out.root = table of the exact root model
\* in.exact_upto = the interval length up to which the source's own table is the tight curve of its
\* process (everything for Periodic / Sporadic / auto-extrapolating curves; the stored prefix for a
\* plain Curve; the horizon for an ArrivalCurvePrefix)
DeriveChecks == {"returns", "never_smaller_than_source", "never_smaller_than_source_beyond_exact_region",
                 "never_smaller_than_root", "coincides_on_covered_prefix"}
DeriveCheck(c, e) ==
    LET o == e.out
        returned == "der" \in DOMAIN o
    IN CASE c = "returns" -> returned
       [] ~returned -> TRUE
       [] c = "never_smaller_than_source" ->
            \A x \in 0..MinOf(Horizon(o.der), e.in.exact_upto) : At(o.der, x) >= At(o.src, x)
       [] c = "never_smaller_than_source_beyond_exact_region" ->
            \A x \in 0..Horizon(o.der) : (x > e.in.exact_upto) => At(o.der, x) >= At(o.src, x)
       [] c = "never_smaller_than_root" ->
            ("root" \in DOMAIN o) => \A i \in 1..Len(o.der) : o.der[i] >= o.root[i]
       [] c = "coincides_on_covered_prefix" ->
            \A x \in 0..MinOf(MinOf(o.covered, e.in.exact_upto), Horizon(o.der)) : At(o.der, x) = At(o.src, x)
DeriveFails(e) == {c \in DeriveChecks : ~DeriveCheck(c, e)}

\* op "dmin_iter": out.items = first items <<n, x>> of delta_min_iter, out.eta = table 0..H
\* exact dual: for n >= 2, n events fit into some window of length x+1 but into no window of length x
DminIterChecks == {"returns", "starts_with_0_and_1", "consecutive_n", "exact_dual"}
DminIterCheck(c, e) ==
    LET o == e.out
        returned == "items" \in DOMAIN o
        H == Horizon(o.eta)
    IN CASE c = "returns" -> returned
       [] ~returned -> TRUE
       [] c = "starts_with_0_and_1" ->
            /\ Len(o.items) >= 2 => (o.items[1] = <<0, 0>> /\ o.items[2] = <<1, 0>>)
       [] c = "consecutive_n" -> \A i \in 1..Len(o.items) : o.items[i][1] = i - 1
       [] c = "exact_dual" ->
            /\ \A i \in 3..Len(o.items) :
                 LET n == o.items[i][1]
                     x == o.items[i][2]
                 IN (x + 1 <= H) => (At(o.eta, x + 1) >= n /\ At(o.eta, x) < n)
            \* and no n reachable within the horizon is missing
            /\ (~o.exhausted) \/ (\A n \in 2..At(o.eta, H) : n <= Len(o.items) - 1)
DminIterFails(e) == {c \in DminIterChecks : ~DminIterCheck(c, e)}

\* ---- C13 (a)-(c): extrapolation of delta-min prefixes -----------------------
\* op "curve_ext": in.d = original prefix, out.orig / out.ext tables 0..H, out.ext_last = largest
\* stored distance after the extension
CurveExtChecks == {"returns", "inside_prefix_unchanged", "never_more_arrivals", "never_more_arrivals_beyond",
                   "still_bounds_prefix_sequences"}
CurveExtCheck(c, e) ==
    LET o == e.out
        returned == "ext" \in DOMAIN o
        d == e.in.d
        H == Horizon(o.ext)
    IN CASE c = "returns" -> returned
       [] ~returned -> TRUE
       [] c = "inside_prefix_unchanged" -> \A x \in 0..MinOf(H, d[Len(d)]) : At(o.ext, x) = At(o.orig, x)
       [] c = "never_more_arrivals" -> \A x \in 0..MinOf(H, o.ext_last) : At(o.ext, x) <= At(o.orig, x)
       [] c = "never_more_arrivals_beyond" -> \A x \in 0..H : (x > o.ext_last) => At(o.ext, x) <= At(o.orig, x)
       \* every sequence respecting the original prefix is still bounded: the tight curve is a floor
       [] c = "still_bounds_prefix_sequences" ->
            LET t == IF e.in.how = "b"
                     THEN \* sequences that respect the prefix and the supplied bound (njobs events span >= delta - 1)
                          CurveEtaTableWithBound(d, e.in.arg[2], e.in.arg[1] - 1, H)
                     ELSE CurveEtaTable(d, H)
            IN \A i \in 1..Len(t) : o.ext[i] >= t[i]
CurveExtFails(e) == {c \in CurveExtChecks : ~CurveExtCheck(c, e)}
=============================================================================
