------------------------------ MODULE Arrival ------------------------------
(***************************************************************************)
(* Arrival models of response-time-analysis-rs as TLA+ operators over the  *)
(* model-description trees of DESIGN.md §2.1.                              *)
(*                                                                         *)
(* Eta(m, delta) is the specification's arrival bound: for the process     *)
(* kinds it is the exact maximum number of events of an admissible         *)
(* sequence in a window of length delta (tight curve), for the composite   *)
(* kinds it is the compositional bound, each rule with its semantic        *)
(* justification:                                                          *)
(*   periodic T          ceil(delta / T)                                   *)
(*   sporadic T, J       ceil((delta + J) / T) for delta > 0: arrivals at  *)
(*                       least T apart, each released up to J later        *)
(*   curve d / xcurve    sequences respecting the delta-min prefix d       *)
(*                       (d[i] = least distance spanned by i+1 events);    *)
(*                       the tight curve is given by the super-additive    *)
(*                       closure DminExt of the prefix                     *)
(*   prop J of m         every event of m delayed by at most J: a window   *)
(*                       of length delta of the delayed sequence maps into *)
(*                       a window of length delta + J of the original      *)
(*   jit J of m          clone_with_jitter: jitter added to the model      *)
(*   sum / vec / slice   superposition: counts add up                      *)
(* ArrivalProc.tla contains the matching event generators; MCArrivalProc   *)
(* checks the generators against these formulas.                           *)
(***************************************************************************)
EXTENDS RtaBase

\* ---- delta-min prefixes ---------------------------------------------------
\* d is a sequence; d[i] is the least distance spanned by i+1 events (i >= 1)

IsSuperAdditivePrefix(d) ==
    /\ Len(d) >= 1
    /\ \A i \in 1..(Len(d) - 1) : d[i] <= d[i + 1]
    /\ d[Len(d)] > 0
    \* n = a + b - 1 events span at least d(a) + d(b):  index(n) = i + j
    /\ \A i, j \in 1..Len(d) : (i + j <= Len(d)) => d[i + j] >= d[i] + d[j]

\* the next entry of the super-additive closure
NextDmin(d) ==
    LET n == Len(d)
        F(k) == d[k] + d[n + 1 - k]
    IN MaxFn(F, 1, n)

RECURSIVE NormalizeR(_, _)
NormalizeR(d, acc) ==
    IF Len(acc) = Len(d) THEN acc
    ELSE LET i == Len(acc) + 1
         IN NormalizeR(d, Append(acc, MaxOf(d[i], IF i = 1 THEN 0 ELSE NextDmin(acc))))
\* the constraints implied *inside* a prefix that is not super-additive itself
Normalize(d) == NormalizeR(d, << >>)

RECURSIVE DminExtR(_, _)
DminExtR(d, target) ==
    IF d[Len(d)] >= target THEN d ELSE DminExtR(Append(d, NextDmin(d)), target)
\* super-additive closure: extend the prefix until its last entry is >= target
DminExt(d, target) == DminExtR(Normalize(d), target)

RECURSIVE DminExtToLenR(_, _)
DminExtToLenR(d, n) == IF Len(d) >= n THEN d ELSE DminExtToLenR(Append(d, NextDmin(d)), n)

\* the prefix-respecting sequences that ALSO respect an extra bound "njobs events span at least dist":
\* closure up to that entry, the entry raised to dist, closure continued
DminWithBound(d, njobs, dist, target) ==
    LET base == DminExtToLenR(Normalize(d), njobs - 1)
        raised == [base EXCEPT ![njobs - 1] = MaxOf(@, dist)]
    IN DminExtR(raised, target)
\* number of events that fit in a window of length delta > 0, given an
\* (extended) prefix whose last entry is >= delta
CountWithin(dx, delta) == 1 + Cardinality({i \in 1..Len(dx) : dx[i] < delta})

CurveEtaTable(d, H) ==
    LET dx == DminExt(d, H)
    IN [i \in 1..(H + 1) |-> IF i = 1 THEN 0 ELSE CountWithin(dx, i - 1)]

CurveEtaTableWithBound(d, njobs, dist, H) ==
    LET dx == DminWithBound(d, njobs, dist, H)
    IN [i \in 1..(H + 1) |-> IF i = 1 THEN 0 ELSE CountWithin(dx, i - 1)]

RunningMax(d) == [i \in 1..Len(d) |-> MaxSeq(SubSeq(d, 1, i))]

\* ---- generic models -------------------------------------------------------
IsSeqKind(m) == m.k \in {"vec", "slice"}

RECURSIVE AddJitter(_, _)
\* the model description that clone_with_jitter(J) is specified to be equivalent to
AddJitter(m, J) ==
    CASE m.k = "never" -> m
      [] m.k = "periodic" -> [k |-> "sporadic", T |-> m.T, J |-> J]
      [] m.k \in {"sporadic", "user"} -> [k |-> m.k, T |-> m.T, J |-> m.J + J]
      [] m.k \in {"prop", "prop_sporadic"} -> [k |-> "prop", J |-> m.J + J, of |-> m.of]
      [] m.k = "sum" -> [k |-> "sum", a |-> AddJitter(m.a, J), b |-> AddJitter(m.b, J)]
      [] IsSeqKind(m) -> [k |-> "vec", of |-> [i \in 1..Len(m.of) |-> AddJitter(m.of[i], J)]]
      [] m.k = "wrap" -> AddJitter(m.of, J)
      [] m.k = "jit" -> AddJitter(AddJitter(m.of, m.J), J)
      [] OTHER -> [k |-> "prop", J |-> J, of |-> m]

\* kinds for which Eta below is defined ("basic" descriptions)
RECURSIVE HasSpecEta(_)
HasSpecEta(m) ==
    CASE m.k \in {"never", "periodic", "sporadic", "user", "curve", "citer"} -> TRUE
      [] m.k = "xcurve" -> m.of.k = "curve"
      [] m.k \in {"prop", "jit", "wrap"} -> HasSpecEta(m.of)
      [] m.k = "prop_sporadic" -> TRUE
      [] m.k = "sum" -> HasSpecEta(m.a) /\ HasSpecEta(m.b)
      [] IsSeqKind(m) -> \A i \in 1..Len(m.of) : HasSpecEta(m.of[i])
      [] OTHER -> FALSE

\* kinds whose Eta is the *tight* curve of their admissible sequences and is attained
IsExactKind(m) == m.k \in {"never", "periodic", "sporadic", "user"}
                  \/ (m.k = "xcurve" /\ m.of.k = "curve" /\ IsSuperAdditivePrefix(m.of.d))

RECURSIVE EtaTable(_, _)
EtaTable(m, H) ==
    CASE m.k = "never" -> [i \in 1..(H + 1) |-> 0]
      [] m.k = "periodic" -> [i \in 1..(H + 1) |-> CeilDiv(i - 1, m.T)]
      [] m.k \in {"sporadic", "user"} ->
            [i \in 1..(H + 1) |-> IF i = 1 THEN 0 ELSE CeilDiv(i - 1 + m.J, m.T)]
      [] m.k = "curve" -> CurveEtaTable(m.d, H)
      \* Curve::from_iter: the distances are first made non-decreasing (running maximum)
      [] m.k = "citer" -> CurveEtaTable(RunningMax(m.d), H)
      [] m.k = "xcurve" -> CurveEtaTable(m.of.d, H)
      [] m.k \in {"prop", "prop_sporadic"} ->
            LET t == EtaTable(m.of, H + m.J)
            IN [i \in 1..(H + 1) |-> IF i = 1 THEN 0 ELSE t[i + m.J]]
      [] m.k = "jit" -> EtaTable(AddJitter(m.of, m.J), H)
      [] m.k = "wrap" -> EtaTable(m.of, H)
      [] m.k = "sum" ->
            LET ta == EtaTable(m.a, H)
                tb == EtaTable(m.b, H)
            IN [i \in 1..(H + 1) |-> ta[i] + tb[i]]
      [] IsSeqKind(m) ->
            LET ts == [j \in 1..Len(m.of) |-> EtaTable(m.of[j], H)]
                F(i) == LET G(j) == ts[j][i] IN SumFn(G, Len(m.of))
            IN [i \in 1..(H + 1) |-> F(i)]

Eta(m, delta) == At(EtaTable(m, delta), delta)

\* pointwise evaluation for models without delta-min prefixes (cheap also for very long intervals)
RECURSIVE HasNoCurve(_)
HasNoCurve(m) ==
    CASE m.k \in {"never", "periodic", "sporadic", "user", "prop_sporadic"} -> TRUE
      [] m.k \in {"prop", "jit", "wrap"} -> HasNoCurve(m.of)
      [] m.k = "sum" -> HasNoCurve(m.a) /\ HasNoCurve(m.b)
      [] IsSeqKind(m) -> \A i \in 1..Len(m.of) : HasNoCurve(m.of[i])
      [] OTHER -> FALSE
RECURSIVE EtaPt(_, _)
EtaPt(m, delta) ==
    CASE m.k = "never" -> 0
      [] m.k = "periodic" -> CeilDiv(delta, m.T)
      [] m.k \in {"sporadic", "user"} -> IF delta = 0 THEN 0 ELSE CeilDiv(delta + m.J, m.T)
      [] m.k \in {"prop", "prop_sporadic"} -> IF delta = 0 THEN 0 ELSE EtaPt(m.of, delta + m.J)
      [] m.k = "jit" -> EtaPt(AddJitter(m.of, m.J), delta)
      [] m.k = "wrap" -> EtaPt(m.of, delta)
      [] m.k = "sum" -> EtaPt(m.a, delta) + EtaPt(m.b, delta)
      [] IsSeqKind(m) -> SumFn(LAMBDA j : EtaPt(m.of[j], delta), Len(m.of))

\* the interval lengths at which the bound increases (what steps_iter must yield)
Steps(m, H) == IncreasePoints(EtaTable(m, H))

\* sub-additivity of a table: t(a + b) <= t(a) + t(b)
IsSubAdditive(t) ==
    \A a, b \in 0..Horizon(t) : (a + b <= Horizon(t)) => At(t, a + b) <= At(t, a) + At(t, b)

\* ---- traces of events -----------------------------------------------------
\* tr: non-decreasing sequence of event instants; the largest number of
\* events in any window [s, s + delta) -- it suffices to start windows at events
WinCount(tr, delta) ==
    IF delta = 0 \/ Len(tr) = 0 THEN 0
    ELSE LET F(i) == Cardinality({j \in i..Len(tr) : tr[j] < tr[i] + delta})
         IN MaxFn(F, 1, Len(tr))
=============================================================================
