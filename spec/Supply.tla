------------------------------- MODULE Supply -------------------------------
(***************************************************************************)
(* Supply-bound functions "from the reservation parameters alone".         *)
(*                                                                         *)
(* A supply description is a record                                        *)
(*   [k |-> "dedicated"]                                                   *)
(*   [k |-> "periodic",    Q |-> budget, P |-> period]                     *)
(*   [k |-> "constrained", Q |-> budget, D |-> deadline, P |-> period]     *)
(* with 1 <= Q <= D <= P.                                                  *)
(*                                                                         *)
(* Closed form (worst-case pattern argument, independent of the code's     *)
(* arithmetic): the window opens right after a budget that was served as   *)
(* early as possible ([0,Q) of its period); every later budget is served   *)
(* as late as the deadline allows ([D-Q, D) of its period).  The window    *)
(* therefore first sees a gap of (P-Q) + (D-Q) and then blocks of Q        *)
(* service units every P.  Reservation.tla ties this to *all* placements   *)
(* (MCReservation: the automaton never delivers less, and attains it).     *)
(***************************************************************************)
EXTENDS RtaBase

SQ(s) == IF s.k = "dedicated" THEN 1 ELSE s.Q
SP(s) == IF s.k = "dedicated" THEN 1 ELSE s.P
SD(s) == IF s.k = "dedicated" THEN 1 ELSE IF s.k = "periodic" THEN s.P ELSE s.D

WellFormedSupply(s) == 1 <= SQ(s) /\ SQ(s) <= SD(s) /\ SD(s) <= SP(s)

Sbf(s, delta) ==
    LET gap == (SP(s) - SQ(s)) + (SD(s) - SQ(s))
        x   == delta - gap
    IN IF x <= 0 THEN 0
       ELSE (x \div SP(s)) * SQ(s) + MinOf(SQ(s), x % SP(s))

\* The inverse, by definition: the least t with Sbf(s, t) >= d.  Since
\* Sbf(s, P + D - 2Q + ceil(d/Q) * P) >= d the scan is bounded.
ServiceTime(s, d) ==
    LET hi == 2 * SP(s) + CeilDiv(d, SQ(s)) * SP(s)
        P(t) == Sbf(s, t) >= d
    IN Least(P, 0, hi)

\* table of Sbf on 0..H
SbfTable(s, H) == [i \in 1..(H + 1) |-> Sbf(s, i - 1)]
=============================================================================
