------------------------------ MODULE RtaBase ------------------------------
(***************************************************************************)
(* Arithmetic and table helpers shared by the whole specification of       *)
(* response-time-analysis-rs.                                              *)
(*                                                                         *)
(* Time model (src/time.rs): discrete time, instants 0,1,2,...; a window   *)
(* of length d starting at s covers the instants s .. s+d-1.  Durations,   *)
(* offsets and service are naturals.  "NONE" (= -1) encodes "no fixed      *)
(* point at or below the limit" / "no claim".                              *)
(*                                                                         *)
(* Conventions for data read from JSON (CommunityModules Json): arrays     *)
(* arrive as 1-based sequences.  A *table* recorded from the               *)
(* implementation for arguments 0..H is a sequence t of length H+1 and     *)
(* t[x+1] is the value at x; At(t, x) hides the shift.                     *)
(***************************************************************************)
EXTENDS Integers, Sequences, FiniteSets, TLC

NONE == -1

Max(a, b) == IF a >= b THEN a ELSE b
Min(a, b) == IF a <= b THEN a ELSE b
Monus(a, b) == IF a >= b THEN a - b ELSE 0          \* saturating subtraction
CeilDiv(a, b) == (a + b - 1) \div b                 \* b > 0, a >= 0

RECURSIVE SetMaxR(_, _)
SetMaxR(S, acc) == IF S = {} THEN acc
                   ELSE LET x == CHOOSE y \in S : TRUE
                        IN SetMaxR(S \ {x}, Max(acc, x))
SetMax(S) == SetMaxR(S, 0)                          \* max of a set of naturals, 0 for {}

RECURSIVE SetMinR(_, _)
SetMinR(S, acc) == IF S = {} THEN acc
                   ELSE LET x == CHOOSE y \in S : TRUE
                        IN SetMinR(S \ {x}, Min(acc, x))
SetMin(S) == LET x == CHOOSE y \in S : TRUE IN SetMinR(S \ {x}, x)   \* S # {}

RECURSIVE SumSeqR(_, _, _)
SumSeqR(s, i, acc) == IF i > Len(s) THEN acc ELSE SumSeqR(s, i + 1, acc + s[i])
SumSeq(s) == SumSeqR(s, 1, 0)

RECURSIVE SumFnR(_, _, _, _)
SumFnR(F(_), i, n, acc) == IF i > n THEN acc ELSE SumFnR(F, i + 1, n, acc + F(i))
SumFn(F(_), n) == SumFnR(F, 1, n, 0)                \* F(1) + ... + F(n)

RECURSIVE MaxFnR(_, _, _, _)
MaxFnR(F(_), i, n, acc) == IF i > n THEN acc ELSE MaxFnR(F, i + 1, n, Max(acc, F(i)))
MaxFn(F(_), lo, hi) == MaxFnR(F, lo, hi, 0)         \* max over lo..hi, 0 if empty

\* least x in lo..hi with P(x), NONE if there is none (linear scan -- "naive")
RECURSIVE LeastR(_, _, _)
LeastR(P(_), x, hi) == IF x > hi THEN NONE ELSE IF P(x) THEN x ELSE LeastR(P, x + 1, hi)
Least(P(_), lo, hi) == LeastR(P, lo, hi)

\* tables -------------------------------------------------------------------
At(t, x) == t[x + 1]
Horizon(t) == Len(t) - 1
IsMonotone(t) == \A i \in 1..(Len(t) - 1) : t[i] <= t[i + 1]
IsLipschitz1(t) == \A i \in 1..(Len(t) - 1) : t[i + 1] <= t[i] + 1
\* positions x in 1..H at which the table increases: t(x-1) < t(x)
IncreasePoints(t) == {x \in 1..Horizon(t) : At(t, x - 1) < At(t, x)}

SeqToSet(s) == {s[i] : i \in 1..Len(s)}
IsStrictlyIncreasing(s) == \A i \in 1..(Len(s) - 1) : s[i] < s[i + 1]
=============================================================================
