------------------------------ MODULE RtaBase ------------------------------
(***************************************************************************)
(* Arithmetic and table helpers shared by the whole specification of       *)
(* response-time-analysis-rs.                                              *)
(*                                                                         *)
(* Time model (src/time.rs): discrete time, instants 0,1,2,...; a window   *)
(* of length d starting at s covers the instants s .. s+d-1.  Durations,   *)
(* offsets and service are naturals.  "NONE" (= -1) encodes "no fixed      *)
(* point at or below the limit" / "no claim".                              *)
(*                                                                         *)
(* Conventions for data read from JSON (CommunityModules Json): arrays     *)
(* arrive as 1-based sequences.  A *table* recorded from the               *)
(* implementation for arguments 0..H is a sequence t of length H+1 and     *)
(* t[x+1] is the value at x; At(t, x) hides the shift.                     *)
(***************************************************************************)
EXTENDS Integers, Sequences, FiniteSets, TLC, SequencesExt, FiniteSetsExt

NONE == -1

MaxOf(a, b) == IF a >= b THEN a ELSE b
MinOf(a, b) == IF a <= b THEN a ELSE b
Monus(a, b) == IF a >= b THEN a - b ELSE 0          \* saturating subtraction
CeilDiv(a, b) == (a + b - 1) \div b                 \* b > 0, a >= 0

\* NOTE on evaluation cost: TLC evaluates RECURSIVE operators at ~60k calls/s but
\* quantifiers, set comprehensions and the Java-overridden folds of the
\* CommunityModules at ~2M elements/s, so all bulk helpers are folds.

SetMax(S) == FoldSet(LAMBDA x, acc : IF x >= acc THEN x ELSE acc, 0, S)   \* 0 for {}
SetMin(S) == LET x0 == CHOOSE y \in S : TRUE                              \* S # {}
             IN FoldSet(LAMBDA x, acc : IF x <= acc THEN x ELSE acc, x0, S)

SumSeq(s) == FoldLeft(LAMBDA acc, x : acc + x, 0, s)
MaxSeq(s) == FoldLeft(LAMBDA acc, x : IF x >= acc THEN x ELSE acc, 0, s)   \* 0 for << >>

IntSeq(lo, hi) == [i \in 1..MaxOf(0, hi - lo + 1) |-> lo + i - 1]            \* <<lo, ..., hi>>

SumFn(F(_), n) == FoldLeft(LAMBDA acc, i : acc + F(i), 0, IntSeq(1, n))    \* F(1) + ... + F(n)
MaxFn(F(_), lo, hi) ==                                                    \* max over lo..hi, 0 if empty
    FoldLeft(LAMBDA acc, i : LET v == F(i) IN IF v >= acc THEN v ELSE acc, 0, IntSeq(lo, hi))

\* least x in lo..hi with P(x), NONE if there is none (linear scan -- "naive")
Least(P(_), lo, hi) ==
    LET idx == SelectInSeq(IntSeq(lo, hi), P)
    IN IF idx = 0 THEN NONE ELSE lo + idx - 1

\* tables -------------------------------------------------------------------
At(t, x) == t[x + 1]
Horizon(t) == Len(t) - 1
IsMonotone(t) == \A i \in 1..(Len(t) - 1) : t[i] <= t[i + 1]
IsLipschitz1(t) == \A i \in 1..(Len(t) - 1) : t[i + 1] <= t[i] + 1
\* positions x in 1..H at which the table increases: t(x-1) < t(x)
IncreasePoints(t) == {x \in 1..Horizon(t) : At(t, x - 1) < At(t, x)}

SeqToSet(s) == {s[i] : i \in 1..Len(s)}
IsStrictlyIncreasing(s) == \A i \in 1..(Len(s) - 1) : s[i] < s[i + 1]
=============================================================================
