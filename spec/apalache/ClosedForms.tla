----------------------------- MODULE ClosedForms -----------------------------
(***************************************************************************)
(* The closed forms of the supply-bound function of a reservation and of   *)
(* Periodic / Sporadic arrivals over unbounded integers: shared by the     *)
(* symbolic obligations (SupplyProofs, ArrivalProofs) and by the           *)
(* large-magnitude trace validation (modules BigTrace generated from       *)
(* recorded library values by bin/vflib.py, checked by Apalache because    *)
(* TLC's integers are 32-bit).                                             *)
(***************************************************************************)
EXTENDS Integers

MinOf(a, b) == IF a <= b THEN a ELSE b
CeilDiv(x, y) == (x + y - 1) \div y

\* worst-case supply of a reservation (budget Q by relative deadline D every P) in a window of length delta
Sbf(Q, D, P, delta) ==
    LET gap == (P - Q) + (D - Q)
        y == delta - gap
    IN IF y <= 0 THEN 0 ELSE (y \div P) * Q + MinOf(Q, y % P)

\* t is the least window length that guarantees dm units of service
IsLeast(Q, D, P, t, dm) == Sbf(Q, D, P, t) >= dm /\ (t = 0 \/ Sbf(Q, D, P, t - 1) < dm)

\* Sporadic(T, J).number_arrivals; Periodic(T) is J = 0
Eta(T, J, delta) == IF delta = 0 THEN 0 ELSE CeilDiv(delta + J, T)

\* Sporadic::steps_iter yields 1 and k*T + 1 - J for every k with k*T > J:
\* delta >= 2 is of that form iff delta - 1 + J is a positive multiple of T
InSteps(T, J, delta) == delta = 1 \/ (delta >= 2 /\ (delta - 1 + J) % T = 0)

\* the step following step s
NextStep(T, J, s) == IF s = 1 THEN ((J \div T) + 1) * T + 1 - J ELSE s + T

\* ---- the discrete time model of src/time.rs --------------------------------
\* an offset A names the instant A; the half-open interval [0, A) has length A, the closed interval [0, A] length A + 1
FromTimeZero(d) == d                    \* Offset::from_time_zero:        [0, A) has length d  <=>  A = d
SinceTimeZero(o) == o                   \* Offset::since_time_zero
ClosedFromTimeZero(d) == d - 1          \* Offset::closed_from_time_zero: [0, A] has length d  <=>  A = d - 1   (d >= 1)
ClosedSinceTimeZero(o) == o + 1         \* Offset::closed_since_time_zero
SatSub(a, b) == IF a >= b THEN a - b ELSE 0
=============================================================================
