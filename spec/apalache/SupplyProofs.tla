---------------------------- MODULE SupplyProofs ----------------------------
(***************************************************************************)
(* Unbounded design-level obligations for C09, discharged symbolically by  *)
(* Apalache (Z3) for ALL budgets, deadlines, periods, interval lengths and *)
(* demands over the naturals (1 <= Q <= D <= P): the state is one          *)
(* arbitrary parameter valuation, the obligations are state invariants     *)
(* checked at length 0.                                                    *)
(*                                                                         *)
(*  Sbf        the closed form of Supply.tla (module ClosedForms)          *)
(*  LibSbfP/C  the arithmetic of src/supply/periodic.rs / constrained.rs   *)
(*  LibStP/C   the arithmetic of their specialised service_time            *)
(* (transcribed; trace validation binds the code to Sbf on recorded        *)
(* tables, these obligations extend the agreement to all parameters).      *)
(***************************************************************************)
EXTENDS ClosedForms

VARIABLES
    \* @type: Int;
    q,
    \* @type: Int;
    d,
    \* @type: Int;
    p,
    \* @type: Int;
    x

\* src/supply/periodic.rs, provided_service
LibSbfP(Q, P, delta) ==
    LET slack == P - Q
    IN IF slack > delta THEN 0
       ELSE LET full == (delta - slack) \div P
                xx == slack + slack + P * full
            IN Q * full + (IF xx < delta THEN delta - xx ELSE 0)

\* src/supply/constrained.rs, provided_service
LibSbfC(Q, D, P, delta) ==
    LET shift == P - Q
    IN IF shift > delta THEN 0
       ELSE LET full == (delta - shift) \div P
                xx == shift + P * full + D - Q
            IN Q * full + (IF xx < delta THEN MinOf(Q, delta - xx) ELSE 0)

\* src/supply/periodic.rs, service_time
LibStP(Q, P, dm) ==
    IF dm = 0 THEN 0
    ELSE LET slack == P - Q
             full == dm \div Q
             fb == Q * full
         IN slack + P * full + (IF fb < dm THEN slack + dm - fb ELSE 0)

\* src/supply/constrained.rs, service_time
LibStC(Q, D, P, dm) ==
    IF dm = 0 THEN 0
    ELSE LET full == dm \div Q
             fb == Q * full
         IN D - Q + P * full + (IF fb < dm THEN dm - fb + P - Q ELSE 0)

Init == q \in Nat /\ d \in Nat /\ p \in Nat /\ q >= 1 /\ q <= d /\ d <= p /\ x \in Nat
Next == UNCHANGED <<q, d, p, x>>

\* zero at zero, non-decreasing, at most one unit per time unit
Shape ==
    /\ Sbf(q, d, p, 0) = 0
    /\ Sbf(q, d, p, x + 1) >= Sbf(q, d, p, x)
    /\ Sbf(q, d, p, x + 1) <= Sbf(q, d, p, x) + 1

\* the library's arithmetic is the closed form
LibAgrees ==
    /\ LibSbfC(q, d, p, x) = Sbf(q, d, p, x)
    /\ LibSbfP(q, p, x) = Sbf(q, p, p, x)

\* deadline = period is the periodic model; budget = period is a dedicated processor
Equivalences ==
    /\ LibSbfC(q, p, p, x) = LibSbfP(q, p, x)
    /\ Sbf(p, p, p, x) = x

\* the specialised service_time is the exact inverse: the least t with Sbf(t) >= x
Inverse ==
    /\ IsLeast(q, d, p, LibStC(q, d, p, x), x)
    /\ IsLeast(q, p, p, LibStP(q, p, x), x)
=============================================================================
