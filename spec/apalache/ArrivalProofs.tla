---------------------------- MODULE ArrivalProofs ----------------------------
(***************************************************************************)
(* Unbounded obligations about the closed form of Periodic / Sporadic      *)
(* arrivals (C10, C11), discharged symbolically by Apalache (Z3) for ALL   *)
(* periods T >= 1, jitters J >= 0 and interval lengths over the naturals.  *)
(***************************************************************************)
EXTENDS Integers

VARIABLES
    \* @type: Int;
    t,
    \* @type: Int;
    j,
    \* @type: Int;
    a,
    \* @type: Int;
    b,
    \* @type: Int;
    j2

CeilDiv(x, y) == (x + y - 1) \div y
\* Sporadic(T, J).number_arrivals; Periodic(T) is J = 0
Eta(T, J, delta) == IF delta = 0 THEN 0 ELSE CeilDiv(delta + J, T)

\* Sporadic::steps_iter yields 1 and k*T + 1 - J for every k with k*T > J:
\* delta >= 2 is of that form iff delta - 1 + J is a positive multiple of T
InSteps(T, J, delta) == delta = 1 \/ (delta >= 2 /\ (delta - 1 + J) % T = 0)

Init == t \in Nat /\ j \in Nat /\ a \in Nat /\ b \in Nat /\ j2 \in Nat /\ t >= 1
Next == UNCHANGED <<t, j, a, b, j2>>

Shape ==
    /\ Eta(t, j, 0) = 0
    /\ Eta(t, j, a + 1) >= Eta(t, j, a)
\* sub-additive: eta(a + b) <= eta(a) + eta(b)
SubAdditive == Eta(t, j, a + b) <= Eta(t, j, a) + Eta(t, j, b)
\* adding jitter j and then j2 is adding j + j2; more jitter never means fewer arrivals
Jitter ==
    /\ Eta(t, j + j2, a) >= Eta(t, j, a)
    /\ (a > 0) => Eta(t, j, a + j2) = Eta(t, j + j2, a)      \* Propagated: delay by j2 = window longer by j2
\* the steps are exactly the increase points
StepsExact == (a >= 1) => ((Eta(t, j, a - 1) < Eta(t, j, a)) <=> InSteps(t, j, a))
=============================================================================
