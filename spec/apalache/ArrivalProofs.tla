---------------------------- MODULE ArrivalProofs ----------------------------
(***************************************************************************)
(* Unbounded obligations about the closed form of Periodic / Sporadic      *)
(* arrivals (C10, C11), discharged symbolically by Apalache (Z3) for ALL   *)
(* periods T >= 1, jitters J >= 0 and interval lengths over the naturals.  *)
(***************************************************************************)
EXTENDS ClosedForms

VARIABLES
    \* @type: Int;
    t,
    \* @type: Int;
    j,
    \* @type: Int;
    a,
    \* @type: Int;
    b,
    \* @type: Int;
    j2

Init == t \in Nat /\ j \in Nat /\ a \in Nat /\ b \in Nat /\ j2 \in Nat /\ t >= 1
Next == UNCHANGED <<t, j, a, b, j2>>

Shape ==
    /\ Eta(t, j, 0) = 0
    /\ Eta(t, j, a + 1) >= Eta(t, j, a)
\* sub-additive: eta(a + b) <= eta(a) + eta(b)
SubAdditive == Eta(t, j, a + b) <= Eta(t, j, a) + Eta(t, j, b)
\* adding jitter j and then j2 is adding j + j2; more jitter never means fewer arrivals
Jitter ==
    /\ Eta(t, j + j2, a) >= Eta(t, j, a)
    /\ (a > 0) => Eta(t, j, a + j2) = Eta(t, j + j2, a)      \* Propagated: delay by j2 = window longer by j2
\* the steps are exactly the increase points
StepsExact == (a >= 1) => ((Eta(t, j, a - 1) < Eta(t, j, a)) <=> InSteps(t, j, a))
\* NextStep really is the next step: it is a step, it lies beyond a, and nothing in between is a step
NextStepExact ==
    InSteps(t, j, a) =>
        /\ NextStep(t, j, a) > a
        /\ InSteps(t, j, NextStep(t, j, a))
        /\ (a < b /\ b < NextStep(t, j, a)) => ~InSteps(t, j, b)
=============================================================================
