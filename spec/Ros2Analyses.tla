---------------------------- MODULE Ros2Analyses ----------------------------
(***************************************************************************)
(* The ROS 2 analyses of src/ros2 written definitionally (DESIGN.md        *)
(* Appendix A; property C07's wording): every offset up to the maximum     *)
(* busy-window / offset bound, linear-scan fixed points (Lfp), and a       *)
(* supply-bound function computed from the reservation parameters alone    *)
(* (Supply.tla).                                                           *)
(*                                                                         *)
(* ECRTS'19 family (event source, timer, polling-point callback, chain):   *)
(*   a demand is a record [sn |-> table of service_needed on 0..H,         *)
(*                         lw |-> table of least_wcet_in_interval].        *)
(* RTSS'21 family (rr, bw): a callback is a record                         *)
(*   [t |-> "timer" | "es" | "unknown" | "polled", p |-> priority,         *)
(*    R |-> assumed response-time bound, eta |-> table of number_arrivals, *)
(*    cost |-> table of cost_of_jobs].                                     *)
(***************************************************************************)
EXTENDS FixedPoint, Supply

SN(dm, x) == At(dm.sn, x)
LW(dm, x) == At(dm.lw, x)

\* interval in which other callbacks can delay the callback under analysis
Iv(own, A, r) ==
    LET lw == LW(own, A + r)
    IN IF r > lw THEN A + r - lw + 1 ELSE A + 1

\* generic driver: busy window by Lfp, every offset 0..bw INCLUSIVE, Lfp with offset
Ecrts19Def(sup, RhsBw(_), Rhs(_, _), lim) ==
    LET S(t) == Sbf(sup, t)
        bw == Lfp(RhsBw, S, 0, lim)
    IN IF bw = NONE THEN NONE
       ELSE LET rs == [i \in 1..(bw + 1) |-> Lfp(LAMBDA r : Rhs(i - 1, r), S, i - 1, lim)]
            IN IF \E i \in 1..(bw + 1) : rs[i] = NONE THEN NONE ELSE MaxSeq(rs)

\* the same with the offsets restricted to the steps of the demand dm (what a search space built from
\* steps_iter examines): used only to CLASSIFY a disagreement with Ecrts19Def
Ecrts19StepsOnly(sup, dm, RhsBw(_), Rhs(_, _), lim) ==
    LET S(t) == Sbf(sup, t)
        bw == Lfp(RhsBw, S, 0, lim)
    IN IF bw = NONE THEN NONE
       ELSE LET offs == {A \in 0..bw : SN(dm, A) < SN(dm, A + 1)}
                rs == [A \in offs |-> Lfp(LAMBDA r : Rhs(A, r), S, A, lim)]
            IN IF \E A \in offs : rs[A] = NONE THEN NONE ELSE SetMax({rs[A] : A \in offs})

Ros2StepsOnly(op, inp) ==
    CASE op = "ros2_es" ->
            Ecrts19StepsOnly(inp.supply, inp.own, LAMBDA x : SN(inp.own, x), LAMBDA A, r : SN(inp.own, A + 1), inp.lim)
      [] op = "ros2_timer" ->
            Ecrts19StepsOnly(inp.supply, inp.own,
               LAMBDA x : SN(inp.own, x) + inp.B + SN(inp.hp, x),
               LAMBDA A, r : SN(inp.own, A + 1) + SN(inp.hp, Iv(inp.own, A, r)) + inp.B, inp.lim)
      [] op = "ros2_pp" ->
            Ecrts19StepsOnly(inp.supply, inp.own,
               LAMBDA x : SN(inp.own, x) + SN(inp.others, x),
               LAMBDA A, r : SN(inp.own, A + 1) + SN(inp.others, Iv(inp.own, A, r)), inp.lim)
      [] op = "ros2_chain" ->
            Ecrts19StepsOnly(inp.supply, inp.full,
               LAMBDA x : SN(inp.full, x) + SN(inp.others, x),
               LAMBDA A, r : SN(inp.last, A + 1) + SN(inp.prefix, Iv(inp.last, A, r)) + SN(inp.others, Iv(inp.last, A, r)),
               inp.lim)

EventSourceDef(inp) ==
    Ecrts19Def(inp.supply, LAMBDA x : SN(inp.own, x), LAMBDA A, r : SN(inp.own, A + 1), inp.lim)

TimerDef(inp) ==
    Ecrts19Def(inp.supply,
               LAMBDA x : SN(inp.own, x) + inp.B + SN(inp.hp, x),
               LAMBDA A, r : SN(inp.own, A + 1) + SN(inp.hp, Iv(inp.own, A, r)) + inp.B,
               inp.lim)

PpCallbackDef(inp) ==
    Ecrts19Def(inp.supply,
               LAMBDA x : SN(inp.own, x) + SN(inp.others, x),
               LAMBDA A, r : SN(inp.own, A + 1) + SN(inp.others, Iv(inp.own, A, r)),
               inp.lim)

ChainDef(inp) ==
    Ecrts19Def(inp.supply,
               LAMBDA x : SN(inp.full, x) + SN(inp.others, x),
               LAMBDA A, r : SN(inp.last, A + 1) + SN(inp.prefix, Iv(inp.last, A, r))
                                                 + SN(inp.others, Iv(inp.last, A, r)),
               inp.lim)

\* ---- RTSS'21 ----------------------------------------------------------------
CbEta(cb, x) == At(cb.eta, x)
CbCost(cb, n) == At(cb.cost, n)
IsPolled(cb) == cb.t \in {"unknown", "polled"}

\* number of polling points of the subchain (Def. 3)
Npp(wl, sub) == SumFn(LAMBDA j : CbEta(wl[sub[j]], wl[sub[j]].R), Len(sub))

\* cap on the instances of an interfering polled callback k, given eoc e and a base count
Capped(k, e, arrived, base) ==
    CASE k.t \in {"timer", "es"} -> arrived
      [] k.t = "unknown" -> MinOf(arrived, base + 1)
      [] k.t = "polled" ->
            IF e.t = "polled" THEN MinOf(arrived, base + (IF k.p < e.p THEN 1 ELSE 0))
            ELSE MinOf(arrived, base + 1)

\* round-robin-aware (Theorem 2)
RrDef(inp) ==
    LET wl == inp.workload
        sub == inp.sub
        ei == sub[Len(sub)]
        e == wl[ei]
        npp == Npp(wl, sub)
        S(t) == Sbf(inp.supply, t)
        Direct(k, dl) == CbCost(k, Capped(k, e, CbEta(k, Monus(dl + k.R, 1)), npp))
        SelfN(dl) == Monus(CbEta(e, Monus(dl + e.R, 1)), 1)
        Rhs(dl) == 1 + SumFn(LAMBDA j : IF j = ei THEN 0 ELSE Direct(wl[j], dl), Len(wl)) + CbCost(e, SelfN(dl))
        Sstar == Lfp(Rhs, S, 0, inp.lim)
    IN IF Sstar = NONE THEN NONE
       ELSE LET n == SelfN(Sstar)
                omega == CbCost(e, n + 1) - CbCost(e, n)
            IN ServiceTime(inp.supply, Monus(S(Sstar), 1) + omega)

\* busy-window-aware (Theorem 3)
BwDef(inp) ==
    LET wl == inp.workload
        sub == inp.sub
        ei == sub[Len(sub)]
        e == wl[ei]
        npp == Npp(wl, sub)
        S(t) == Sbf(inp.supply, t)
        Interf(dl, a) == SumFn(LAMBDA j : IF j = ei THEN 0
                                         ELSE CbCost(wl[j], Capped(wl[j], e, CbEta(wl[j], dl), CbEta(wl[j], a) + npp)),
                               Len(wl))
        maxoff == Lfp(LAMBDA x : 1 + Interf(x, x) + CbCost(e, CbEta(e, x)), S, 0, inp.lim)
        SelfN(a) == Monus(CbEta(e, a + 1), 1)
        PerOffset(a) ==
            LET Sstar == Lfp(LAMBDA dl : 1 + Interf(dl, a) + CbCost(e, SelfN(a)), S, 0, inp.lim)
            IN IF Sstar = NONE THEN NONE
               ELSE LET omega == CbCost(e, SelfN(a) + 1) - CbCost(e, SelfN(a))
                        F == ServiceTime(inp.supply, Monus(S(Sstar), 1) + omega)
                    IN IF Len(sub) = 1 THEN Monus(F, a) ELSE F
    IN IF maxoff = NONE THEN NONE
       ELSE IF maxoff = 0 THEN 0
       ELSE LET rs == [i \in 1..maxoff |-> PerOffset(i - 1)]
            IN IF \E i \in 1..maxoff : rs[i] = NONE THEN NONE ELSE MaxSeq(rs)

Ros2Def(op, inp) ==
    CASE op = "ros2_es" -> EventSourceDef(inp)
      [] op = "ros2_timer" -> TimerDef(inp)
      [] op = "ros2_pp" -> PpCallbackDef(inp)
      [] op = "ros2_chain" -> ChainDef(inp)
      [] op = "ros2_rr" -> RrDef(inp)
      [] op = "ros2_bw" -> BwDef(inp)
=============================================================================
