--------------------------- MODULE MCDefaultInverse ---------------------------
(***************************************************************************)
(* R3 for C09: the trait's default SupplyBound::service_time as a state    *)
(* machine -- start at t = demand; while the supply guaranteed within t is *)
(* short of the demand, jump ahead by what is missing -- checked against   *)
(* the definition (the least t with S(t) >= d) for every supply of a small *)
(* family (reservations with P <= 4 and user-defined staircases given by a *)
(* 0/1 pattern of length <= 4) and every demand up to 9.  The argument     *)
(* needs S to grow by at most one per time unit (the iterate never         *)
(* overshoots); a supply that jumps by two is included to show that the    *)
(* invariant is then violated (configuration MCDefaultInverseSteep, not    *)
(* registered: expected to fail).                                          *)
(***************************************************************************)
EXTENDS RtaBase, Supply

Patterns == {<<1>>, <<0, 1>>, <<1, 0>>, <<0, 0, 1>>, <<1, 0, 0, 1>>, <<0, 1, 1, 0>>, <<0, 0, 0, 1>>}
Reservations == {[k |-> "constrained", Q |-> q, D |-> dl, P |-> p] : q \in 1..4, dl \in 1..4, p \in 1..4}
Supplies == {[k |-> "dedicated"]} \cup {s \in Reservations : WellFormedSupply(s)}
            \cup {[k |-> "stair", pattern |-> pt] : pt \in Patterns}

StairSbf(pat, t) == LET n == Len(pat) IN (t \div n) * SumSeq(pat) + SumSeq(SubSeq(pat, 1, t % n))
S(s, t) == IF s.k = "stair" THEN StairSbf(s.pattern, t) ELSE IF s.k = "steep" THEN 2 * (t \div 3) ELSE Sbf(s, t)

CONSTANT Steep
VARIABLES sup, d, t, done
vars == <<sup, d, t, done>>

Init == /\ sup \in (IF Steep THEN {[k |-> "steep"]} ELSE Supplies)
        /\ d \in 0..9
        /\ t = d
        /\ done = FALSE
Step == /\ ~done
        /\ IF S(sup, t) >= d THEN done' = TRUE /\ t' = t
           ELSE t' = t + (d - S(sup, t)) /\ done' = FALSE
        /\ UNCHANGED <<sup, d>>
Spec == Init /\ [][Step]_vars /\ WF_vars(Step)

LeastT == CHOOSE x \in 0..200 : S(sup, x) >= d /\ \A y \in 0..(x - 1) : S(sup, y) < d
Invariant == t <= LeastT /\ (done => t = LeastT)
Terminates == <>done
===============================================================================
