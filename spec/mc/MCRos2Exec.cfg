INIT Init
NEXT Next
INVARIANTS Safe CapOk
CHECK_DEADLOCK FALSE
