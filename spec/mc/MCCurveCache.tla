----------------------------- MODULE MCCurveCache -----------------------------
(***************************************************************************)
(* R3 for C13(d) / C14: history independence of the CurveCache machine.    *)
(* For every small original prefix and every sequence of operations on the *)
(* shared cache (queries, new iterators, iterator steps, in any order) the *)
(* answer equals the eager (history-independent) answer.  With HIST = "1"  *)
(* the operation history is carried along and printed as JSON when the     *)
(* behaviour reaches its final length -- these behaviours are replayed on  *)
(* the real ExtrapolatingCurve objects (spec -> impl).                     *)
(***************************************************************************)
EXTENDS CurveCache, Json, IOUtils

Kind == IOEnv.KIND                 \* "arrival" | "wcet"
WithHist == IOEnv.HIST = "1"
MaxOps == IF WithHist THEN 10 ELSE 8

ArrPrefixes == {<<3>>, <<1, 3>>, <<0, 2>>, <<2, 5>>, <<1, 2, 6>>, <<0, 0, 3>>, <<2, 4, 7>>}
CostPrefixes == {<<3>>, <<2, 3>>, <<3, 4, 6>>, <<2, 4, 5>>, <<4, 5, 6, 8>>}
MaxArg == IF Kind = "arrival" THEN 9 ELSE 8
\* arguments of queries; a small set in simulation mode so that iterator operations are not crowded out
Args == IF WithHist THEN {0, 2, 5, MaxArg} ELSE 0..MaxArg

VARIABLES orig, cache, its, nops, ok, hist
vars == <<orig, cache, its, nops, ok, hist>>

Init ==
    /\ orig \in (IF Kind = "arrival" THEN ArrPrefixes ELSE CostPrefixes)
    /\ cache = orig /\ its = << >> /\ nops = 0 /\ ok = TRUE /\ hist = << >>

Log(op) == hist' = IF WithHist THEN Append(hist, op) ELSE hist

Query(a) ==
    /\ LET r == IF Kind = "arrival" THEN QueryEta(cache, a) ELSE QueryCost(cache, a)
           eager == IF Kind = "arrival" THEN EagerEta(orig, a) ELSE EagerCost(orig, a)
       IN cache' = r[2] /\ ok' = (r[1] = eager)
    /\ Log(<<"q", nops % 3, a>>)
    /\ UNCHANGED <<orig, its>>

LeastQ(a) ==
    /\ Kind = "wcet"
    /\ ok' = (LeastWcet(cache, a) = EagerLeastWcet(orig, a))
    /\ Log(<<"least", nops % 3, a>>)
    /\ UNCHANGED <<orig, cache, its>>

NewIter ==
    /\ Len(its) < 2
    /\ its' = Append(its, IF Kind = "arrival" THEN (IF CanExtrapolate(cache) THEN <<0, 0, 0>> ELSE <<-1, 0, 0>>) ELSE <<0, 0, 0>>)
    /\ ok' = TRUE
    /\ Log(<<"it_new", nops % 3>>)
    /\ UNCHANGED <<orig, cache>>

\* iterator records <<position.., k>> where k counts the items already yielded
IterStep(i) ==
    /\ i \in 1..Len(its)
    /\ LET pos == its[i]
           k == pos[3] + 1
       IN IF Kind = "arrival"
          THEN IF pos[1] = -1
               THEN /\ its' = [its EXCEPT ![i] = <<-1, pos[2] + 1, k>>]
                    /\ cache' = cache
                    /\ ok' = TRUE
               ELSE LET r == IterNext(cache, <<pos[1], pos[2]>>)
                        st == EagerSteps(orig, r[1] + 1)
                    IN /\ its' = [its EXCEPT ![i] = <<r[3][1], r[3][2], k>>]
                       /\ cache' = r[2]
                       /\ ok' = (r[1] \in st /\ Cardinality({x \in st : x <= r[1]}) = k)
          ELSE LET n == pos[1] + 1
                   r1 == QueryCost(cache, n)
                   r0 == QueryCost(r1[2], n - 1)
               IN /\ its' = [its EXCEPT ![i] = <<n, 0, k>>]
                  /\ cache' = r0[2]
                  /\ ok' = (r1[1] - r0[1] = EagerCost(orig, n) - EagerCost(orig, n - 1))
    /\ Log(<<"it_next", i - 1>>)
    /\ UNCHANGED orig

Next ==
    /\ nops < MaxOps
    /\ nops' = nops + 1
    /\ \/ \E a \in Args : Query(a)
       \/ \E a \in Args : LeastQ(a)
       \/ NewIter
       \/ \E i \in 1..2 : IterStep(i)

\* history independence of the design
HistoryIndependent == ok

\* spec -> impl: print each complete behaviour once (used with -simulate)
Emit ==
    (WithHist /\ nops = MaxOps) =>
        PrintT("HISTORY " \o ToJson([kind |-> Kind, d |-> orig, ops |-> hist]))
===============================================================================
