------------------------------- MODULE MCSched -------------------------------
(* Model-checking configuration for the scheduler world model: the batch of *)
(* systems comes from IOEnv.BATCH, see Sched.tla.                           *)
EXTENDS Sched
ASSUME TLCSet(7, {})
==============================================================================
