INIT Init
NEXT Next
INVARIANTS Agreement Monotone
CHECK_DEADLOCK FALSE
