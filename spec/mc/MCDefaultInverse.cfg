SPECIFICATION Spec
CONSTANT Steep = FALSE
INVARIANT Invariant
PROPERTY Terminates
CHECK_DEADLOCK FALSE
