SPECIFICATION Spec
INVARIANT Invariant
PROPERTY Terminates
CHECK_DEADLOCK FALSE
