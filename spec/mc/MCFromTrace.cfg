INIT Init
NEXT Next
INVARIANTS Correct Emit
CHECK_DEADLOCK FALSE
