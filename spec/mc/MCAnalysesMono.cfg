INIT Init
NEXT Next
INVARIANTS Monotone
CHECK_DEADLOCK FALSE
