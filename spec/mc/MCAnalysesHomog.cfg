INIT Init
NEXT Next
INVARIANTS Homogeneous
CHECK_DEADLOCK FALSE
