----------------------------- MODULE MCFixedPoint -----------------------------
(***************************************************************************)
(* R3 for C08: the iteration that src/fixed_point.rs runs (start at 1,     *)
(* jump to service_time(w(r)) - offset, stop when the bound no longer      *)
(* grows or the limit is exceeded) as a state machine, checked against the *)
(* definition Lfp for ALL monotone workloads w : 1..LenW -> 0..MaxW, all   *)
(* supplies of a small family, all in-window offsets and all limits.       *)
(***************************************************************************)
EXTENDS FixedPoint, Supply

LenW == 4
MaxW == 4
Supplies == {[k |-> "dedicated"]}
            \cup {[k |-> "constrained", Q |-> q, D |-> dl, P |-> p] : q \in 1..3, dl \in 1..3, p \in 1..3}
Wf(s) == WellFormedSupply(s)

VARIABLES w, sup, off, lim, r, status, val
vars == <<w, sup, off, lim, r, status, val>>

W(x) == w[MinOf(x, LenW)]
S(t) == Sbf(sup, t)
Monotone(f) == \A i \in 1..(LenW - 1) : f[i] <= f[i + 1]

Init ==
    /\ w \in {f \in [1..LenW -> 0..MaxW] : Monotone(f)}
    /\ sup \in {s \in Supplies : Wf(s)}
    /\ off \in 0..4
    /\ InWindow(W, S, off)
    /\ lim \in 1..7
    /\ r = 1 /\ status = "run" /\ val = 0

Iterate ==
    /\ status = "run"
    /\ IF r <= lim
       THEN LET met == ServiceTime(sup, W(r))
                bound == met - off
            IN IF bound <= r
               THEN status' = "ok" /\ val' = bound /\ r' = r
               ELSE r' = bound /\ UNCHANGED <<status, val>>
       ELSE status' = "err" /\ UNCHANGED <<r, val>>
    /\ UNCHANGED <<w, sup, off, lim>>

Next == Iterate
Spec == Init /\ [][Next]_vars /\ WF_vars(Next)

Expected == Lfp(W, S, off, lim)
\* the iterate never overshoots the least solution, the offset stays inside the window
Invariant ==
    /\ status = "ok" => (Expected # NONE /\ val = Expected)
    /\ status = "err" => Expected = NONE
    /\ status = "run" => (Expected = NONE \/ r <= MaxOf(Expected, 1))
Terminates == <>(status # "run")
===============================================================================
