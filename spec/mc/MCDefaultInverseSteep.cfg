SPECIFICATION Spec
CONSTANT Steep = TRUE
INVARIANT Invariant
CHECK_DEADLOCK FALSE
