INIT Init
NEXT Next
INVARIANTS HistoryIndependent Emit
CHECK_DEADLOCK FALSE
