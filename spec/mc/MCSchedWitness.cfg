INIT Init
NEXT Next
INVARIANTS Safe CapOk Witness
CHECK_DEADLOCK FALSE
