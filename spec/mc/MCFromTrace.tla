----------------------------- MODULE MCFromTrace -----------------------------
EXTENDS FromTrace, Json, IOUtils

Kind == IOEnv.KIND                     \* "arrival" | "wcet" | "wcet_f1" (the algorithm before the F1 repair)
MaxLen == 5
Gaps == 0..3
Costs == 1..3

VARIABLES K, tr, window, acc
vars == <<K, tr, window, acc>>

Init == K \in 1..MaxLen /\ tr = << >> /\ window = << >> /\ acc = << >>

Extend ==
    /\ Len(tr) < MaxLen
    /\ IF Kind = "arrival"
       THEN \E g \in Gaps :
              LET t == IF tr = << >> THEN 0 ELSE tr[Len(tr)] + g
                  r == ArrConsume(K, window, acc, t)
              IN tr' = Append(tr, t) /\ window' = r[1] /\ acc' = r[2]
       ELSE \E c \in Costs :
              LET r == CostConsume(K, window, acc, c, Kind = "wcet_f1")
              IN tr' = Append(tr, c) /\ window' = r[1] /\ acc' = r[2]
    /\ UNCHANGED K

Next == Extend

\* the machine has inferred exactly the definitional prefix of the trace consumed so far
Correct ==
    IF Kind = "arrival" THEN acc = DminDef(tr, K)
    ELSE acc = CostDef(tr, K)

\* spec -> impl: every complete trace of the box, once (K = 1 only, the replay tries every K)
Emit == (Len(tr) = MaxLen /\ K = 1) => PrintT("TRACE " \o ToJson([kind |-> Kind, tr |-> tr]))
==============================================================================
