INIT Init
NEXT Next
INVARIANTS Safe Witness
CHECK_DEADLOCK FALSE
