------------------------------ MODULE MCAnalyses ------------------------------
(***************************************************************************)
(* R3 for C17 / C19: the relations the properties state between analyses   *)
(* hold for the DEFINITIONAL evaluators of Analyses.tla on a small box of  *)
(* two-task systems (sporadic with jitter; all limits and blocking bounds  *)
(* of the box).  This is a statement about the specification: it explains  *)
(* why the implementation should conform, and it guards the definitional   *)
(* evaluators against transcription mistakes (a wrong evaluator would show *)
(* up here before it shows up as a false alarm in trace validation).       *)
(***************************************************************************)
EXTENDS Analyses, Arrival

H == 40
Task(T, J, C, D) == [C |-> C, rbf |-> [i \in 1..(H + 1) |-> C * EtaTable([k |-> "sporadic", T |-> T, J |-> J], H)[i]],
                     last |-> 1, D |-> D, seg |-> C, T |-> T, J |-> J]

VARIABLES tua, oth, B, lim
vars == <<tua, oth, B, lim>>

Init ==
    /\ \E T \in 1..4, J \in 0..2, C \in 1..2, D \in {1, 3, 6} : tua = Task(T, J, C, D)
    /\ \E T \in 1..4, J \in {0, 3}, C \in 1..2, D \in {2, 5} : oth = Task(T, J, C, D)
    /\ B \in 0..2
    /\ lim \in {1, 2, 3, 5, 8, 13}
Next == UNCHANGED vars

WithLast(t, l) == [t EXCEPT !.last = l]
WithSeg(t, s) == [t EXCEPT !.seg = s]
Res(v) == IF v = NONE THEN [err |-> "diverge"] ELSE [ok |-> v]
Leq(a, b) == b = NONE \/ (a # NONE /\ a <= b)

Fp(p, t, b, l) == FpDef(p, t, <<oth>>, b, l)
Edf(p, t, o, l) == EdfDef(p, t, <<o>>, l)

\* C19 -------------------------------------------------------------------------
Agreement ==
    /\ Fp("fp_lp", WithLast(tua, 1), 0, lim) = Fp("fp_p", tua, B, lim)
    /\ Fp("fp_lp", WithLast(tua, tua.C), B, lim) = Fp("fp_np", tua, B, lim)
    /\ Fp("fp_fnp", tua, B, lim) = Fp("fp_lp", WithLast(tua, 1), B, lim)
    /\ Edf("edf_lp", WithLast(tua, 1), WithSeg(oth, 1), lim) = Edf("edf_p", tua, oth, lim)
    /\ Edf("edf_lp", WithLast(tua, tua.C), WithSeg(oth, oth.C), lim) = Edf("edf_np", tua, oth, lim)
    /\ Edf("edf_fnp", tua, oth, lim) = Edf("edf_lp", WithLast(tua, 1), oth, lim)
    \* equal deadlines: the larger of the two NP-EDF bounds = the FIFO bound
    /\ LET t1 == [tua EXCEPT !.D = 4]
           t2 == [oth EXCEPT !.D = 4]
           a == Edf("edf_np", t1, t2, lim)
           b == EdfDef("edf_np", t2, <<t1>>, lim)
           m == IF a = NONE \/ b = NONE THEN NONE ELSE MaxOf(a, b)
       IN m = FifoDef(<<t1, t2>>, lim)

\* C17 -------------------------------------------------------------------------
Policies == {"fp_p", "fp_np", "fp_lp", "fp_fnp"}
Monotone ==
    /\ \A p \in Policies : Leq(Fp(p, tua, B, lim), Fp(p, tua, B + 1, lim))                       \* blocking
    /\ \A p \in Policies : Leq(FpDef(p, tua, << >>, B, lim), Fp(p, tua, B, lim))                 \* task added
    /\ \A p \in {"edf_np", "edf_lp", "edf_fnp"} :
          (oth.seg < oth.C) => Leq(Edf(p, tua, oth, lim), Edf(p, tua, WithSeg(oth, oth.seg + 1), lim))
    \* an Ok result does not change when the limit is raised
    /\ \A p \in Policies : LET v == Fp(p, tua, B, lim) IN (v # NONE) => Fp(p, tua, B, lim + 3) = v
    /\ LET v == FifoDef(<<tua, oth>>, lim) IN (v # NONE) => FifoDef(<<tua, oth>>, lim + 3) = v

\* Scaling ------------------------------------------------------------------------
\* Homogeneity: multiplying every period, jitter, cost, deadline, the blocking bound and the limit by K multiplies
\* the bound by K (Err stays Err) -- for all four FP analyses (preemptive, non-preemptive, limited-preemptive, floating),
\* for fully preemptive EDF and for FIFO.  This is what lets bounds recorded from the implementation at magnitudes far
\* beyond TLC's integers be checked against the bounds of the K-times smaller system (stage "scaled-systems" of C06:
\* the small system is validated equationally by TLC, the relation big = K * small by Apalache over unbounded integers).
\* The EDF analyses with non-preemptive segments (np, lp, fnp) are NOT homogeneous (the blocking term "segment - 1" does not scale;
\* EdfFnpWouldBeHomogeneous below is violated) and are not part of that stage.
Scale(t, K) == [Task(K * t.T, K * t.J, K * t.C, K * t.D) EXCEPT !.last = 1, !.seg = K * t.seg]
Times(K, v) == IF v = NONE THEN NONE ELSE K * v
Homogeneous ==
    \A K \in {2, 3} :
        /\ \A p \in {"fp_p", "fp_np", "fp_fnp"} :
               FpDef(p, Scale(tua, K), <<Scale(oth, K)>>, K * B, K * lim) = Times(K, Fp(p, tua, B, lim))
        /\ \A l \in 1..tua.C :        \* limited-preemptive FP with every length of the last segment
               FpDef("fp_lp", [Scale(tua, K) EXCEPT !.last = K * l], <<Scale(oth, K)>>, K * B, K * lim)
                  = Times(K, Fp("fp_lp", WithLast(tua, l), B, lim))
        /\ EdfDef("edf_p", Scale(tua, K), <<Scale(oth, K)>>, K * lim) = Times(K, Edf("edf_p", tua, oth, lim))
        /\ FifoDef(<<Scale(tua, K), Scale(oth, K)>>, K * lim) = Times(K, FifoDef(<<tua, oth>>, lim))
\* the negative fact (violated; not part of any registered configuration)
EdfFnpWouldBeHomogeneous ==
    EdfDef("edf_fnp", Scale(tua, 2), <<Scale(oth, 2)>>, 2 * lim) = Times(2, Edf("edf_fnp", tua, oth, lim))
===============================================================================
