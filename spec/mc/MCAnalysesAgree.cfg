INIT Init
NEXT Next
INVARIANTS Agreement
CHECK_DEADLOCK FALSE
