------------------------------ MODULE FromTrace ------------------------------
(***************************************************************************)
(* The two sliding-window inference algorithms of the library as state     *)
(* machines (one action per consumed trace entry):                         *)
(*   arrival::Curve::from_trace(arrival_times, prefix_jobs)                *)
(*   wcet::Curve::from_trace(job_costs, max_n)                             *)
(* together with what they are supposed to compute:                        *)
(*   d[i]    = the least distance spanned by i+1 consecutive events        *)
(*   cost[n] = the largest total cost of n consecutive jobs                *)
(* over the WHOLE trace consumed so far (for i < K resp. n <= K).          *)
(* MCFromTrace explores every trace of the box and checks the invariant    *)
(* after every step; it also prints the traces it generated so that they   *)
(* can be replayed on the implementation (spec -> impl, C12 / C14).        *)
(* The cost machine with OldestFirst = TRUE is the algorithm before the    *)
(* repair of defect F1: TLC refutes its invariant (e.g. <<1, 1, 3>>, K=2). *)
(***************************************************************************)
EXTENDS RtaBase

\* ---- arrival traces ---------------------------------------------------------
\* window: the last <= K arrival times (oldest first); d: inferred prefix
ArrConsume(K, window, d, t) ==
    LET n == Len(window)
        \* i-th most recent entry of the window (i = 1 .. n)
        Recent(i) == window[n + 1 - i]
        d2 == [i \in 1..MaxOf(Len(d), n) |->
                 IF i <= n
                 THEN IF i <= Len(d) THEN MinOf(d[i], t - Recent(i)) ELSE t - Recent(i)
                 ELSE d[i]]
        w2 == Append(window, t)
    IN <<IF Len(w2) > K THEN Tail(w2) ELSE w2, d2>>

\* definition: least span of i+1 consecutive events of tr
SpanMin(tr, i) == SetMin({tr[j + i] - tr[j] : j \in 1..(Len(tr) - i)})
DminDef(tr, K) == [i \in 1..MinOf(K, Len(tr) - 1) |-> SpanMin(tr, i)]

\* ---- cost traces --------------------------------------------------------------
CostConsume(K, window, cost, c, OldestFirst) ==
    LET w1 == Append(window, c)
        w2 == IF Len(w1) > K THEN Tail(w1) ELSE w1
        n == Len(w2)
        \* total of the first i entries in iteration order
        Tot(i) == IF OldestFirst THEN SumSeq(SubSeq(w2, 1, i)) ELSE SumSeq(SubSeq(w2, n + 1 - i, n))
        c2 == [i \in 1..MaxOf(Len(cost), n) |->
                 IF i <= n
                 THEN IF i <= Len(cost) THEN MaxOf(cost[i], Tot(i)) ELSE Tot(i)
                 ELSE cost[i]]
    IN <<w2, c2>>

RunMax(tr, n) == SetMax({SumSeq(SubSeq(tr, j, j + n - 1)) : j \in 1..(Len(tr) - n + 1)})
CostDef(tr, K) == [n \in 1..MinOf(K, Len(tr)) |-> RunMax(tr, n)]
=============================================================================
