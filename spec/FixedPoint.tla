----------------------------- MODULE FixedPoint -----------------------------
(***************************************************************************)
(* The fixed-point search of src/fixed_point.rs.                           *)
(*                                                                         *)
(* Lfp is property C08's wording, verbatim: the smallest r >= 0 such that  *)
(* the service guaranteed within offset + r time units covers              *)
(* w(max(r, 1)); NONE if there is none at or below the limit.              *)
(*                                                                         *)
(* The second half of the module is the *iteration* the implementation     *)
(* runs (Kleene iteration with jumps through the inverse of the supply     *)
(* bound), as a state machine; MCFixedPoint checks that it computes Lfp.   *)
(***************************************************************************)
EXTENDS RtaBase

\* W(_): workload (monotone), S(_): supply-bound function (monotone, S(0) = 0, 1-Lipschitz)
Lfp(W(_), S(_), off, lim) ==
    Least(LAMBDA r : S(off + r) >= W(MaxOf(r, 1)), 0, lim)

\* dedicated processor: S(t) = t
LfpDed(W(_), lim) == Least(LAMBDA r : r >= W(MaxOf(r, 1)), 0, lim)

\* offsets inside the busy window (the premise of C08): the instant `off` is
\* not yet beyond the point where the first unit of demand is met
InWindow(W(_), S(_), off) == off = 0 \/ S(off - 1) < W(1)

\* results are records [ok |-> r] or [err |-> "diverge", offset |-> a, limit |-> l]
ResultOf(r, off, lim) == IF r = NONE THEN [err |-> "diverge", offset |-> off, limit |-> lim] ELSE [ok |-> r]
IsOk(res) == "ok" \in DOMAIN res
IsErr(res) == "err" \in DOMAIN res

\* max_response_time: the first error if there is one, otherwise the maximum, zero for << >>
MaxResponseTime(rs) ==
    LET errs == {i \in 1..Len(rs) : IsErr(rs[i])}
    IN IF errs # {} THEN rs[SetMin(errs)]
       ELSE [ok |-> MaxSeq([i \in 1..Len(rs) |-> rs[i].ok])]

\* order on results used by the monotonicity property: Err is the top element
ResLeq(a, b) == IsErr(b) \/ (IsOk(a) /\ IsOk(b) /\ a.ok <= b.ok)
=============================================================================
