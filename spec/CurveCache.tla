----------------------------- MODULE CurveCache -----------------------------
(***************************************************************************)
(* The two caching curve types (arrival::ExtrapolatingCurve and            *)
(* wcet::ExtrapolatingCurve) as state machines.  All clones of a curve     *)
(* share one cache (Rc<RefCell<Curve>>): the stored prefix, which only     *)
(* grows.  A query first extends the cache as far as it needs and then     *)
(* answers from the cache exactly like the plain (non-caching) curve.      *)
(* Iterators keep a position of their own and extend the shared cache      *)
(* while they advance.                                                     *)
(*                                                                         *)
(* Property C13 / C14 (history independence): whatever was asked before,   *)
(* on whichever clone, every answer equals the answer of an eagerly        *)
(* extrapolated curve: EagerEta / EagerSteps / EagerCost below, which      *)
(* depend on the ORIGINAL prefix only.  MCCurveCache checks that the       *)
(* machine has this property for all small prefixes and all operation      *)
(* sequences; TraceCache replays recorded operation sequences of the real  *)
(* objects through it.                                                     *)
(***************************************************************************)
EXTENDS Arrival, Wcet

\* ---- arrival curve cache ----------------------------------------------------
CanExtrapolate(c) == Len(c) >= 2

\* Curve::extrapolate(horizon): push closure entries until the last one reaches the horizon
ExtendToHorizon(c, hz) == IF CanExtrapolate(c) THEN DminExtR(c, hz) ELSE c

RECURSIVE ExtendToLenR(_, _)
ExtendToLenR(c, n) == IF Len(c) >= n THEN c ELSE ExtendToLenR(Append(c, NextDmin(c)), n)
\* Curve::extrapolate_steps(n): until the prefix covers n jobs (n entries)
ExtendToSteps(c, n) == IF CanExtrapolate(c) THEN ExtendToLenR(c, n) ELSE c

\* Curve::min_distance(n)
MinDistance(c, n) == IF n > 1 THEN c[MinOf(n - 1, Len(c))] ELSE 0

\* Curve::number_arrivals on the stored prefix (repetition of the prefix beyond its last entry)
PlainEta(c, delta) ==
    IF delta = 0 THEN 0
    ELSE LET last == c[Len(c)]
             full == (delta - 1) \div last
             tail == delta - last * full
         IN full * Len(c) + (IF tail > c[1] THEN 1 + Cardinality({i \in 1..Len(c) : c[i] < tail}) ELSE 1)

\* ExtrapolatingCurve::number_arrivals: <<answer, cache'>>
QueryEta(c, delta) ==
    IF delta = 0 THEN <<0, c>>
    ELSE LET c2 == ExtendToHorizon(c, delta + 1) IN <<PlainEta(c2, delta), c2>>

\* steps iterator of an ExtrapolatingCurve: position <<dist, njobs>>
RECURSIVE IterAdvanceR(_, _, _)
IterAdvanceR(c, dist, njobs) ==
    IF MinDistance(c, njobs) <= dist
    THEN IterAdvanceR(ExtendToSteps(c, njobs + 1), dist, njobs + 1)
    ELSE <<c, MinDistance(c, njobs), njobs>>
\* <<yielded value, cache', position'>>
IterNext(c, pos) ==
    LET adv == IterAdvanceR(c, pos[1], pos[2])
    IN <<1 + pos[1], adv[1], <<adv[2], adv[3]>>>>

\* what an eagerly extrapolated curve answers: the tight curve of the original prefix
EagerEta(orig, delta) == At(CurveEtaTable(orig, delta), delta)
\* the k-th step (k >= 1) of the eager curve, searched up to the horizon H
EagerSteps(orig, H) == IncreasePoints(CurveEtaTable(orig, H))

\* ---- WCET curve cache -------------------------------------------------------
\* wcet::Curve::extrapolate(n): only prefixes with >= 3 entries are extended, until n - 1 entries
RECURSIVE CostExtendR(_, _)
CostExtendR(w, n) == IF Len(w) + 1 >= n THEN w ELSE CostExtendR(Append(w, NextCost(w)), n)
CostExtend(w, n) == IF Len(w) >= 3 THEN CostExtendR(w, n) ELSE w

\* ExtrapolatingCurve::cost_of_jobs(n): <<answer, cache'>>
QueryCost(w, n) == LET w2 == CostExtend(w, n + 1) IN <<RepeatCost(w2, n), w2>>

\* least_wcet(n) reads the cache as it is
LeastWcet(w, n) ==
    IF n = 0 THEN 0
    ELSE SetMin({(IF i = 1 THEN w[1] ELSE w[i] - w[i - 1]) : i \in 1..MinOf(n, Len(w))})

EagerCost(orig, n) ==
    IF n = 0 THEN 0
    ELSE IF Len(orig) >= 3 THEN CostClosure(orig, n)[n] ELSE RepeatCost(orig, n)
EagerLeastWcet(orig, n) == LeastWcet(orig, n)
=============================================================================
