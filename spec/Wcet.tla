-------------------------------- MODULE Wcet --------------------------------
(***************************************************************************)
(* Job-cost models (src/wcet) over cost-description trees:                 *)
(*   [k |-> "scalar", c |-> C]          every job costs at most C          *)
(*   [k |-> "multiframe", cs |-> <<..>>] consecutive jobs cycle through cs *)
(*   [k |-> "wcurve", w |-> <<..>>]     w[n] bounds the total cost of any  *)
(*                                      n consecutive jobs, n <= Len(w)    *)
(* CostTable(c, N)[n+1] is the specified cumulative cost of n jobs.        *)
(* For a cumulative-cost prefix the *tightest* bound consistent with the   *)
(* prefix is its sub-additive closure (a run of n jobs splits into runs of *)
(* k and n-k jobs); any sound extension lies between that closure and ...  *)
(* nothing above is required, so the closure is the safety floor.          *)
(***************************************************************************)
EXTENDS RtaBase

\* sub-additive closure of a cumulative-cost prefix, extended to N entries
NextCost(w) ==
    LET n == Len(w)
    IN SetMin({w[k] + w[n + 1 - k] : k \in 1..n})

RECURSIVE CostClosure(_, _)
CostClosure(w, N) == IF Len(w) >= N THEN w ELSE CostClosure(Append(w, NextCost(w)), N)

\* plain repetition of the prefix (what a non-extrapolated Curve documents)
RepeatCost(w, n) ==
    IF n = 0 \/ Len(w) = 0 THEN 0
    ELSE LET x == n \div Len(w)
             y == n % Len(w)
         IN x * w[Len(w)] + (IF y > 0 THEN w[y] ELSE 0)

HasSpecCost(c) == c.k \in {"scalar", "multiframe"} \/ (c.k = "wrap" /\ c.of.k \in {"scalar", "multiframe"})

RECURSIVE CostTable(_, _)
CostTable(c, N) ==
    CASE c.k = "scalar" -> [i \in 1..(N + 1) |-> c.c * (i - 1)]
      [] c.k = "multiframe" ->
            LET L == Len(c.cs)
                tot == SumSeq(c.cs)
                pre == [j \in 0..L |-> SumSeq(SubSeq(c.cs, 1, j))]
            IN [i \in 1..(N + 1) |-> ((i - 1) \div L) * tot + pre[(i - 1) % L]]
      [] c.k = "wrap" -> CostTable(c.of, N)

\* total cost of the most expensive run of n consecutive entries of a cost trace
MaxRun(tr, n) ==
    IF n = 0 \/ n > Len(tr) THEN 0
    ELSE LET F(i) == SumSeq(SubSeq(tr, i, i + n - 1)) IN MaxFn(F, 1, Len(tr) - n + 1)
=============================================================================
