----------------------------- MODULE ArrivalProc -----------------------------
(***************************************************************************)
(* World model for C10 / C13(c): explicit event generators for the         *)
(* admissible event processes of the arrival models, with a window         *)
(* observer (as in Reservation.tla).                                       *)
(*                                                                         *)
(* Generator kinds (record field gen):                                     *)
(*  "sporadic" T, J, X   arrivals at least T apart (explicitly: a counter  *)
(*      of the time since the last arrival), each arrival released after   *)
(*      a nondeterministic delay in 0..J+X (J = own release jitter, X =    *)
(*      jitter added by Propagated / clone_with_jitter); in-flight         *)
(*      arrivals are kept as a bag of remaining delays.  This is the       *)
(*      *definition* of the process, deliberately not the compact          *)
(*      one-counter recogniser used in Sched.tla; CompactAgrees below      *)
(*      relates the two.                                                   *)
(*  "dmin" d, X          events respecting the delta-min prefix d (the     *)
(*      last Len(d) event times), each delayed by 0..X                     *)
(*  "csporadic" T, J     the COMPACT recogniser used by Sched.tla and        *)
(*      Ros2Exec.tla for sporadic arrivals with release jitter: a single   *)
(*      counter d (time since the least consistent arrival time), release  *)
(*      legal iff d >= T, then d' = min(J, d - T).  Exploring it here      *)
(*      against the same table shows that it accepts only curve-compliant  *)
(*      release sequences (Safe) and still attains the bound at every      *)
(*      window length (Witness), i.e. it is neither too permissive nor     *)
(*      too restrictive for the world models that rely on it.              *)
(* A system is a sequence of generators (superposition) and the table eta  *)
(* on 0..H recorded from the implementation's number_arrivals.             *)
(*   Safe     the number of released events in the open window <= eta(e)   *)
(*   Witness  reports e whenever the count equals eta(e)  (attained)       *)
(***************************************************************************)
EXTENDS Integers, Sequences, FiniteSets, TLC, Json, IOUtils

Sys == ndJsonDeserialize(IOEnv.BATCH)

VARIABLES cfg, st, fly, open, e, n, ptr
vars == <<cfg, st, fly, open, e, n, ptr>>

R == Sys[cfg]
G(i) == R.gens[i]
NG == Len(R.gens)
H == Len(R.eta) - 1
MinOf(a, b) == IF a <= b THEN a ELSE b
Delay(i) == IF G(i).gen = "sporadic" THEN G(i).J + G(i).X ELSE IF G(i).gen = "csporadic" THEN 0 ELSE G(i).X
MaxFly == 4

GenInit(gn) ==
    CASE gn.gen = "sporadic" -> gn.T
      [] gn.gen = "csporadic" -> gn.T + gn.J
      [] OTHER -> [k \in 1..Len(gn.d) |-> gn.d[Len(gn.d)]]
CanArrive(gn, s) ==
    CASE gn.gen \in {"sporadic", "csporadic"} -> s >= gn.T
      [] OTHER -> \A k \in 1..Len(gn.d) : s[k] >= gn.d[k]
AfterArrive(gn, s) ==
    CASE gn.gen = "sporadic" -> 0
      [] gn.gen = "csporadic" -> MinOf(gn.J, s - gn.T)
      [] OTHER -> [k \in 1..Len(gn.d) |-> IF k = 1 THEN 0 ELSE s[k - 1]]
GenTick(gn, s) ==
    CASE gn.gen = "sporadic" -> MinOf(gn.T, s + 1)
      [] gn.gen = "csporadic" -> MinOf(gn.T + gn.J, s + 1)
      [] OTHER -> [k \in 1..Len(gn.d) |-> MinOf(gn.d[Len(gn.d)], s[k] + 1)]

Init ==
    /\ cfg \in 1..Len(Sys)
    /\ st = [i \in 1..NG |-> GenInit(G(i))]
    /\ fly = [i \in 1..NG |-> << >>]          \* remaining delays of arrived, not yet released events (sorted)
    /\ open \in BOOLEAN /\ e = 0 /\ n = 0 /\ ptr = 1     \* the window may open at the very first instant

\* insert into a sorted sequence (canonical bag)
Insert(s, x) ==
    LET k == Cardinality({j \in 1..Len(s) : s[j] <= x})
    IN SubSeq(s, 1, k) \o <<x>> \o SubSeq(s, k + 1, Len(s))

\* an event arrives at generator i and draws its delay; delay 0 = released now
Arrive(i) ==
    /\ i >= ptr
    /\ CanArrive(G(i), st[i])
    /\ Len(fly[i]) < MaxFly
    /\ st' = [st EXCEPT ![i] = AfterArrive(G(i), st[i])]
    /\ \E dl \in 0..Delay(i) :
          IF dl = 0
          THEN /\ n' = IF open THEN n + 1 ELSE n
               /\ fly' = fly
          ELSE /\ fly' = [fly EXCEPT ![i] = Insert(fly[i], dl)]
               /\ n' = n
    /\ ptr' = i
    /\ UNCHANGED <<cfg, open, e>>

\* time advances: delays count down; events whose delay reaches 0 are released at the new instant
Tick ==
    /\ (~open \/ e < H)
    /\ LET rel == [i \in 1..NG |-> Cardinality({j \in 1..Len(fly[i]) : fly[i][j] = 1})]
           tot == LET RECURSIVE Sum(_) Sum(i) == IF i = 0 THEN 0 ELSE rel[i] + Sum(i - 1) IN Sum(NG)
       IN /\ fly' = [i \in 1..NG |->
                        LET keep == SelectSeq(fly[i], LAMBDA x : x > 1)
                        IN [j \in 1..Len(keep) |-> keep[j] - 1]]
          \* the window [s, s+e) has length e+1 after this tick; events released at the new instant belong to it
          /\ IF open THEN /\ e' = e + 1 /\ n' = (IF e + 1 <= H THEN n + tot ELSE n)
                          /\ open' = open
             \* the window may open at the new instant: it then contains the events released at that instant
             ELSE \E o \in BOOLEAN : open' = o /\ e' = 0 /\ n' = (IF o THEN tot ELSE 0)
    /\ st' = [i \in 1..NG |-> GenTick(G(i), st[i])]
    /\ ptr' = 1
    /\ UNCHANGED cfg

Next == Tick \/ \E i \in 1..NG : Arrive(i)

\* a window of length e + 1 is open while e counts completed ticks: the events counted so far lie in
\* [s, s + e], i.e. in a window of length e + 1
Safe == (open /\ e + 1 <= H) => n <= R.eta[e + 2]

Witness ==
    (open /\ e + 1 <= H /\ n = R.eta[e + 2]) =>
        LET key == <<R.id, e + 1>>
        IN IF key \in TLCGet(9) THEN TRUE
           ELSE TLCSet(9, TLCGet(9) \cup {key}) /\ PrintT("WITNESS " \o ToString(R.id) \o " " \o ToString(e + 1))
=============================================================================
