//! rta-harness: drives the real response-time-analysis library and records
//! ndjson events for the TLA+ trace specifications (DESIGN.md §2).
//! It never judges; every verdict is computed by TLC.

mod describe;
mod drivers;
mod gen;
mod outcome;

use rand::rngs::StdRng;
use rand::SeedableRng;

/// A single allocation request of 2 GiB or more never comes from the harness or from the library on the inputs the
/// drivers generate; it is what a runaway computation in the code under test looks like (e.g. an extrapolation whose
/// distances stopped growing). A failed allocation aborts the process, which `catch_unwind` cannot turn into data, so
/// the requesting thread is parked instead: the watchdog of `outcome::guarded` then records the call as a hang
/// ("does not return"), which the trace specifications reject, and the runner restarts the driver behind it.
struct CappedAlloc;
const ALLOC_CAP: usize = 2 << 30;
fn park_forever() {
    loop {
        std::thread::sleep(std::time::Duration::from_secs(3600));
    }
}
unsafe impl std::alloc::GlobalAlloc for CappedAlloc {
    unsafe fn alloc(&self, l: std::alloc::Layout) -> *mut u8 {
        if l.size() >= ALLOC_CAP {
            park_forever();
        }
        std::alloc::System.alloc(l)
    }
    unsafe fn alloc_zeroed(&self, l: std::alloc::Layout) -> *mut u8 {
        if l.size() >= ALLOC_CAP {
            park_forever();
        }
        std::alloc::System.alloc_zeroed(l)
    }
    unsafe fn dealloc(&self, p: *mut u8, l: std::alloc::Layout) {
        std::alloc::System.dealloc(p, l)
    }
    unsafe fn realloc(&self, p: *mut u8, l: std::alloc::Layout, n: usize) -> *mut u8 {
        if n >= ALLOC_CAP {
            park_forever();
        }
        std::alloc::System.realloc(p, l, n)
    }
}
#[global_allocator]
static GLOBAL: CappedAlloc = CappedAlloc;

pub struct Ctx {
    pub rng: StdRng,
    pub seed: u64,
    pub thorough: bool,
    pub watchdog_ms: u64,
    pub sink: outcome::Sink,
    pub args: Vec<String>,
    pub seq: u64,
    pub skip: u64,
}

impl Ctx {
    /// Record one guarded call.  Calls are numbered; after a hang the process
    /// records the event, exits with status 3 and is restarted by the runner
    /// with `--skip <seq>` (generation is deterministic in the seed), so an
    /// abandoned, possibly allocating, thread never outlives its event.
    pub fn call(&mut self, op: &str, inp: serde_json::Value, f: fn(&serde_json::Value) -> serde_json::Value) {
        self.seq += 1;
        if self.seq <= self.skip {
            return;
        }
        let out = outcome::guarded(&inp, self.watchdog_ms, f);
        let hang = out.get("hang").is_some();
        self.sink.event(op, inp, out);
        if hang {
            self.sink.flush();
            println!("HARNESS-HANG seq={} events={}", self.seq, self.sink.n);
            std::process::exit(3);
        }
    }

    pub fn arg(&self, name: &str) -> Option<String> {
        self.args
            .iter()
            .position(|a| a == name)
            .and_then(|i| self.args.get(i + 1).cloned())
    }
}

fn main() {
    let args: Vec<String> = std::env::args().collect();
    if args.len() < 2 {
        eprintln!("usage: rta-harness <driver> --out FILE [--tier quick|thorough] [--seed N] [...]");
        std::process::exit(2);
    }
    let driver = args[1].clone();
    let get = |name: &str| {
        args.iter()
            .position(|a| a == name)
            .and_then(|i| args.get(i + 1).cloned())
    };
    let out = get("--out").expect("--out FILE");
    let seed: u64 = get("--seed").and_then(|s| s.parse().ok()).unwrap_or(1);
    let thorough = get("--tier").map(|t| t == "thorough").unwrap_or(false);
    let watchdog_ms: u64 = get("--watchdog-ms").and_then(|s| s.parse().ok()).unwrap_or(20_000);
    outcome::install_panic_hook();
    let mut ctx = Ctx {
        rng: StdRng::seed_from_u64(seed),
        seed,
        thorough,
        watchdog_ms,
        sink: outcome::Sink::create(&out),
        args: args.clone(),
        seq: 0,
        skip: get("--skip").and_then(|s| s.parse().ok()).unwrap_or(0),
    };
    match driver.as_str() {
        "supply" => drivers::supply::run(&mut ctx),
        "big" => drivers::big::run(&mut ctx),
        "bigsearch" => drivers::big::run_search(&mut ctx),
        "timeops" => drivers::big::run_time(&mut ctx),
        "suite" => drivers::rta::run_suite(&mut ctx),
        "scale" => drivers::rta::run_scale(&mut ctx),
        "extreme" => drivers::big::run_extreme(&mut ctx),
        "eta" => drivers::arrival::run_eta(&mut ctx),
        "steps" => drivers::arrival::run_steps(&mut ctx),
        "cost" => drivers::cost::run_cost(&mut ctx),
        "cost_trace" => drivers::cost::run_cost_trace(&mut ctx),
        "rta" => drivers::rta::run_rta(&mut ctx),
        "search" => drivers::rta::run_search(&mut ctx),
        "systems" => drivers::systems::run(&mut ctx),
        "agree" => drivers::agree::run(&mut ctx),
        "harden" => drivers::harden::run(&mut ctx),
        "ros2" => drivers::ros2::run(&mut ctx),
        "ros2sys" => drivers::ros2sys::run(&mut ctx),
        "c12" => drivers::derive::run_c12(&mut ctx),
        "c13" => drivers::derive::run_c13(&mut ctx),
        "cache" => drivers::cache::run(&mut ctx),
        "corner" => drivers::corner::run(&mut ctx),
        "poisson" => drivers::poisson::run(&mut ctx),
        "resv" => drivers::procs::run_resv(&mut ctx),
        "procs" => drivers::procs::run_procs(&mut ctx),
        "harden_ros2" => drivers::harden::run_ros2(&mut ctx),
        "agree_ros2" => drivers::agree::run_ros2(&mut ctx),
        "demand" => drivers::cost::run_demand(&mut ctx),
        d => {
            eprintln!("unknown driver {}", d);
            std::process::exit(2);
        }
    }
    let n = ctx.sink.finish();
    println!("HARNESS-DONE driver={} events={} profile={}", driver, n,
        if cfg!(debug_assertions) { "dev" } else { "release" });
}
