//! Seeded generators of well-formed model descriptions (DESIGN.md §3.2) and
//! the input-class tags used by known-findings matching.  Tags are computed
//! syntactically from the description (never from library answers), except
//! for derived curves whose stored prefix is read from the `Debug` output.

use rand::rngs::StdRng;
use rand::Rng;
use serde_json::{json, Value};

use crate::describe::*;
use response_time_analysis::arrival::ArrivalBound;

pub fn is_superadditive(dm: &[u64]) -> bool {
    let n = dm.len();
    if n == 0 || dm[n - 1] == 0 {
        return false;
    }
    for i in 1..n {
        if dm[i] < dm[i - 1] {
            return false;
        }
    }
    // index i (0-based) <-> i+2 events; events a+b-1: idx(a)+idx(b)+1
    for i in 0..n {
        for j in 0..n {
            if i + j + 1 < n && dm[i + j + 1] < dm[i] + dm[j] {
                return false;
            }
        }
    }
    true
}

/// Random super-additive delta-min prefix (non-decreasing, last entry > 0).
pub fn dmin_prefix(rng: &mut StdRng, len: usize, maxinc: u64, zero_start: bool) -> Vec<u64> {
    let mut dm: Vec<u64> = Vec::new();
    for i in 0..len {
        let lower = if i == 0 {
            0
        } else {
            (0..i).map(|k| dm[k] + dm[i - 1 - k]).max().unwrap().max(dm[i - 1])
        };
        let inc = if i == 0 && zero_start {
            0
        } else if i == 0 {
            rng.gen_range(1..=maxinc)
        } else if rng.gen_bool(0.35) {
            0
        } else {
            rng.gen_range(0..=maxinc)
        };
        dm.push(lower + inc);
    }
    if *dm.last().unwrap() == 0 {
        let l = dm.len();
        dm[l - 1] = rng.gen_range(1..=maxinc);
    }
    debug_assert!(is_superadditive(&dm));
    dm
}

/// Random non-decreasing prefix that need not be super-additive.
pub fn loose_prefix(rng: &mut StdRng, len: usize, maxinc: u64) -> Vec<u64> {
    let mut dm = Vec::new();
    let mut cur = if rng.gen_bool(0.2) { 0 } else { rng.gen_range(1..=maxinc) };
    for _ in 0..len {
        dm.push(cur);
        if rng.gen_bool(0.7) {
            cur += rng.gen_range(0..=maxinc);
        }
    }
    if *dm.last().unwrap() == 0 {
        let l = dm.len();
        dm[l - 1] = 1;
    }
    dm
}

pub struct Opts {
    pub tmax: u64,
    pub allow_never: bool,
    pub allow_loose: bool,   // non-super-additive prefixes
    pub allow_zero: bool,    // zero-start prefixes (simultaneous arrivals)
    pub allow_derived: bool, // conversions / traces / extrapolated curves / acp
    pub allow_user: bool,
}

impl Opts {
    pub fn basic(tmax: u64) -> Opts {
        Opts {
            tmax,
            allow_never: false,
            allow_loose: false,
            allow_zero: false,
            allow_derived: false,
            allow_user: false,
        }
    }
    pub fn all(tmax: u64) -> Opts {
        Opts {
            tmax,
            allow_never: true,
            allow_loose: true,
            allow_zero: true,
            allow_derived: true,
            allow_user: true,
        }
    }
}

pub fn curve_desc(rng: &mut StdRng, o: &Opts) -> Value {
    let len = rng.gen_range(1..=4);
    let maxinc = (o.tmax / 2).max(2);
    let dm = if o.allow_loose && rng.gen_bool(0.2) {
        loose_prefix(rng, len, maxinc)
    } else {
        let zero = o.allow_zero && rng.gen_bool(0.25);
        dmin_prefix(rng, len, maxinc, zero)
    };
    json!({"k": "curve", "d": dm})
}

pub fn leaf(rng: &mut StdRng, o: &Opts) -> Value {
    let r = rng.gen_range(0..100);
    let t = rng.gen_range(1..=o.tmax);
    if r < 22 {
        json!({"k": "periodic", "T": t})
    } else if r < 55 {
        let j = match rng.gen_range(0..4) {
            0 => 0,
            1 => rng.gen_range(0..=t),
            2 => t * rng.gen_range(1..=2) - rng.gen_range(0..=1), // kT, kT-1
            _ => rng.gen_range(0..=2 * t + 2),
        };
        json!({"k": "sporadic", "T": t, "J": j})
    } else if r < 72 {
        curve_desc(rng, o)
    } else if r < 90 {
        json!({"k": "xcurve", "of": curve_desc(rng, o)})
    } else if r < 94 && o.allow_never {
        json!({"k": "never"})
    } else if r < 97 && o.allow_user {
        json!({"k": "user", "T": t, "J": rng.gen_range(0..=t + 1)})
    } else {
        json!({"k": "sporadic", "T": t, "J": rng.gen_range(0..=t)})
    }
}

pub fn derived(rng: &mut StdRng, o: &Opts, depth: u32) -> Value {
    let src = arrival(rng, depth.saturating_sub(1), &Opts { allow_never: false, allow_derived: false, ..Opts::all(o.tmax) });
    let sp = span(&src).max(2);
    // well-formed conversions (DESIGN.md §3.2): more jobs than the source's initial burst, so that the
    // recorded prefix ends with a positive distance (used to choose the request only, never to judge)
    let burst = std::panic::catch_unwind(|| build_arrival(&src).number_arrivals(d(1)) as u64).unwrap_or(1);
    match rng.gen_range(0..7) {
        0 => json!({"k": "cfrom", "how": "until", "arg": rng.gen_range(sp..=3 * sp), "of": src}),
        1 => json!({"k": "cfrom", "how": "njobs", "arg": burst + rng.gen_range(2..=10), "of": src}),
        2 => {
            let t = rng.gen_range(1..=o.tmax);
            let of = if rng.gen_bool(0.5) {
                json!({"k": "periodic", "T": t})
            } else {
                json!({"k": "sporadic", "T": t, "J": rng.gen_range(0..=2 * t)})
            };
            json!({"k": "cfrom", "how": "into", "arg": 0, "of": of})
        }
        3 => json!({"k": "acp_from", "h": rng.gen_range(sp..=3 * sp), "of": src}),
        4 => {
            let n = rng.gen_range(3..=8);
            let mut t = 0u64;
            let mut ev = vec![];
            for _ in 0..n {
                ev.push(t);
                t += if rng.gen_bool(0.25) { 0 } else { rng.gen_range(1..=o.tmax) };
            }
            // well-formed: the inferred prefix (spans of up to k events) must end > 0
            let k = rng.gen_range(2..=n);
            let kk = (k as usize).min(ev.len());
            let last_span = (0..=ev.len() - kk).map(|i| ev[i + kk - 1] - ev[i]).min().unwrap();
            if last_span == 0 {
                let l = ev.len();
                for (i, e) in ev.iter_mut().enumerate() {
                    *e += i as u64; // spread the events so that no k of them coincide
                }
                let _ = l;
            }
            json!({"k": "ctrace", "ev": ev, "n": k})
        }
        5 => {
            let c = curve_desc(rng, &Opts { allow_loose: false, ..Opts::all(o.tmax) });
            let last = *us(&c["d"]).last().unwrap();
            if rng.gen_bool(0.5) {
                json!({"k": "cext", "how": "h", "arg": last + rng.gen_range(1..=2 * last + 2), "of": c})
            } else {
                let l = us(&c["d"]).len() as u64;
                json!({"k": "cext", "how": "n", "arg": l + rng.gen_range(1..=4), "of": c})
            }
        }
        _ => json!({"k": "cfrom", "how": "into", "arg": 0,
                    "of": {"k": "acp_from", "h": rng.gen_range(sp..=3 * sp), "of": src}}),
    }
}

pub fn arrival(rng: &mut StdRng, depth: u32, o: &Opts) -> Value {
    if depth == 0 || rng.gen_bool(0.35) {
        if o.allow_derived && rng.gen_bool(0.25) {
            return derived(rng, o, depth);
        }
        return leaf(rng, o);
    }
    match rng.gen_range(0..10) {
        0 | 1 => json!({"k": "prop", "J": rng.gen_range(0..=o.tmax + 2), "of": arrival(rng, depth - 1, o)}),
        2 | 3 => json!({"k": "jit", "J": rng.gen_range(0..=o.tmax + 2), "of": arrival(rng, depth - 1, o)}),
        4 | 5 => json!({"k": "sum", "a": arrival(rng, depth - 1, o), "b": arrival(rng, depth - 1, o)}),
        6 => {
            let n = rng.gen_range(if o.allow_never { 0 } else { 1 }..=3);
            let parts: Vec<Value> = (0..n).map(|_| arrival(rng, depth - 1, o)).collect();
            json!({"k": "vec", "of": parts})
        }
        7 => {
            let n = rng.gen_range(1..=3);
            let parts: Vec<Value> = (0..n).map(|_| arrival(rng, depth - 1, o)).collect();
            json!({"k": "slice", "of": parts})
        }
        8 => {
            let w = ["box", "rc", "ref"][rng.gen_range(0..3)];
            json!({"k": "wrap", "w": w, "of": arrival(rng, depth - 1, o)})
        }
        _ => {
            let t = rng.gen_range(1..=o.tmax);
            json!({"k": "prop_sporadic", "J": rng.gen_range(0..=o.tmax + 2),
                   "of": {"k": "sporadic", "T": t, "J": rng.gen_range(0..=t + 2)}})
        }
    }
}

/// A characteristic time span of the model (to size horizons).
pub fn span(v: &Value) -> u64 {
    match kind(v) {
        "never" => 4,
        "periodic" => u(&v["T"]),
        "sporadic" | "user" => u(&v["T"]) + u(&v["J"]),
        "curve" | "citer" => *us(&v["d"]).iter().max().unwrap() + 1,
        "ctrace" => us(&v["ev"]).last().copied().unwrap_or(1) + 1,
        "xcurve" | "wrap" | "cext" | "cfrom" => span(&v["of"]).max(v.get("arg").and_then(|a| a.as_u64()).unwrap_or(0).min(200)),
        "acp" => u(&v["h"]),
        "acp_from" => u(&v["h"]).max(span(&v["of"])),
        "prop" | "jit" | "prop_sporadic" => span(&v["of"]) + u(&v["J"]),
        "sum" => span(&v["a"]).max(span(&v["b"])),
        "vec" | "slice" => v["of"].as_array().unwrap().iter().map(span).max().unwrap_or(4),
        "poisson" => 10,
        k => panic!("harness: span of {}", k),
    }
}

/// true iff the model can syntactically never produce an arrival
pub fn is_empty_model(v: &Value) -> bool {
    match kind(v) {
        "never" => true,
        "prop" | "jit" | "wrap" | "cfrom" | "acp_from" => is_empty_model(&v["of"]),
        "sum" => is_empty_model(&v["a"]) && is_empty_model(&v["b"]),
        "vec" | "slice" => v["of"].as_array().unwrap().iter().all(is_empty_model),
        "acp" => v["steps"].as_array().unwrap().is_empty(),
        _ => false,
    }
}

fn prefix_tags(dm: &[u64], tags: &mut Vec<String>) {
    let n = dm.len();
    if n >= 2 && dm[n - 1] == dm[n - 2] {
        tags.push("plateau_end".into());
    }
    if n >= 1 && dm[0] == 0 {
        tags.push("zero_start".into());
    }
    if !is_superadditive(dm) {
        tags.push("non_superadditive".into());
    }
    if n == 1 {
        tags.push("single_entry".into());
    }
}

/// The stored delta-min prefix of a built curve, read from its Debug output
/// (used for tagging only).
pub fn stored_prefix(c: &response_time_analysis::arrival::Curve) -> Vec<u64> {
    let s = format!("{:?}", c);
    let mut out = vec![];
    for part in s.split("val: ").skip(1) {
        let num: String = part.chars().take_while(|ch| ch.is_ascii_digit()).collect();
        if let Ok(x) = num.parse() {
            out.push(x);
        }
    }
    out
}

fn collect_tags(v: &Value, tags: &mut Vec<String>) {
    let k = kind(v);
    match k {
        "curve" | "citer" => {
            let mut dm = us(&v["d"]);
            if k == "citer" {
                for i in 1..dm.len() {
                    dm[i] = dm[i].max(dm[i - 1]);
                }
            }
            prefix_tags(&dm, tags)
        }
        "ctrace" | "cfrom" | "cext" => {
            tags.push("derived_curve".into());
            if let Ok(c) = std::panic::catch_unwind(|| build_curve(v)) {
                prefix_tags(&stored_prefix(&c), tags);
            }
            if let Some(of) = v.get("of") {
                collect_tags(of, tags);
            }
        }
        "acp" | "acp_from" => {
            tags.push("acp".into());
            if let Some(of) = v.get("of") {
                collect_tags(of, tags);
            }
        }
        "prop" | "jit" | "prop_sporadic" => {
            if is_empty_model(&v["of"]) {
                tags.push("prop_of_empty".into());
            }
            if k == "jit" && matches!(kind(&v["of"]), "curve" | "citer" | "ctrace" | "cfrom" | "cext" | "xcurve" | "acp" | "acp_from" | "poisson") && is_empty_model(&v["of"]) {
                tags.push("prop_of_empty".into());
            }
            collect_tags(&v["of"], tags)
        }
        "xcurve" | "wrap" => collect_tags(&v["of"], tags),
        "sum" => {
            collect_tags(&v["a"], tags);
            collect_tags(&v["b"], tags)
        }
        "vec" | "slice" => {
            for p in v["of"].as_array().unwrap() {
                collect_tags(p, tags)
            }
        }
        "never" => tags.push("never".into()),
        "user" => tags.push("default_steps".into()),
        "poisson" => tags.push("poisson".into()),
        _ => {}
    }
}

pub fn tags(v: &Value) -> Vec<String> {
    let mut t = vec![];
    collect_tags(v, &mut t);
    t.sort();
    t.dedup();
    t
}

/// random job-cost model description
pub fn cost(rng: &mut StdRng, cmax: u64, scalar_only: bool) -> Value {
    if scalar_only || rng.gen_bool(0.5) {
        return json!({"k": "scalar", "c": rng.gen_range(1..=cmax)});
    }
    match rng.gen_range(0..4) {
        0 => {
            let n = rng.gen_range(1..=4);
            let cs: Vec<u64> = (0..n).map(|_| rng.gen_range(1..=cmax)).collect();
            json!({"k": "multiframe", "cs": cs})
        }
        1 => json!({"k": "wcurve", "w": cost_prefix(rng, cmax)}),
        2 => json!({"k": "wxcurve", "of": {"k": "wcurve", "w": cost_prefix(rng, cmax)}}),
        _ => {
            let w = ["box", "rc", "ref", "min", "min"][rng.gen_range(0..5)];
            let of = if rng.gen_bool(0.5) {
                json!({"k": "scalar", "c": rng.gen_range(1..=cmax)})
            } else {
                let n = rng.gen_range(1..=4);
                let cs: Vec<u64> = (0..n).map(|_| rng.gen_range(1..=cmax)).collect();
                json!({"k": "multiframe", "cs": cs})
            };
            json!({"k": "wrap", "w": w, "of": of})
        }
    }
}

/// random cumulative-cost prefix: strictly increasing (every job costs >= 1), sub-additive
pub fn cost_prefix(rng: &mut StdRng, cmax: u64) -> Vec<u64> {
    // prefix sums of a random cost trace's max-run function are sub-additive; build via a trace
    let n = rng.gen_range(3..=8);
    let tr: Vec<u64> = (0..n).map(|_| rng.gen_range(1..=cmax)).collect();
    let len = rng.gen_range(1..=n.min(5));
    (1..=len)
        .map(|k| (0..=n - k).map(|i| tr[i..i + k].iter().sum::<u64>()).max().unwrap())
        .collect()
}
