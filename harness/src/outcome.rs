//! Outcome encoding (DESIGN.md §3.3): the harness never judges, it records.
//! Every call into the library runs on its own thread inside `catch_unwind`;
//! a call that does not return within the watchdog is recorded as a hang
//! (the thread is abandoned).

use std::cell::RefCell;
use std::io::Write;
use std::panic;
use std::sync::mpsc;
use std::time::Duration as StdDuration;

use response_time_analysis::fixed_point::{SearchFailure, SearchResult};
use serde_json::{json, Value};

thread_local! {
    static LAST_PANIC: RefCell<String> = RefCell::new(String::new());
}

pub fn install_panic_hook() {
    panic::set_hook(Box::new(|info| {
        let loc = info
            .location()
            .map(|l| format!("{}:{}", l.file(), l.line()))
            .unwrap_or_default();
        let msg = if let Some(s) = info.payload().downcast_ref::<&str>() {
            s.to_string()
        } else if let Some(s) = info.payload().downcast_ref::<String>() {
            s.clone()
        } else {
            "?".to_string()
        };
        LAST_PANIC.with(|p| *p.borrow_mut() = format!("{}: {}", loc, msg));
    }));
}

/// Run `f(input)` on a fresh thread; returns its JSON result, or
/// `{"panic": msg}` / `{"hang": true}`.
pub fn guarded(input: &Value, watchdog_ms: u64, f: fn(&Value) -> Value) -> Value {
    let (tx, rx) = mpsc::channel();
    let inp = input.clone();
    let builder = std::thread::Builder::new().stack_size(64 << 20);
    let handle = builder
        .spawn(move || {
            let r = panic::catch_unwind(|| f(&inp));
            let out = match r {
                Ok(v) => v,
                Err(_) => {
                    let msg = LAST_PANIC.with(|p| p.borrow().clone());
                    if msg.contains("harness:") {
                        // a bug in the harness itself must never look like library behaviour
                        json!({ "harness_error": msg })
                    } else {
                        json!({ "panic": truncate(&msg, 200) })
                    }
                }
            };
            let _ = tx.send(out);
        })
        .expect("spawn");
    match rx.recv_timeout(StdDuration::from_millis(watchdog_ms)) {
        Ok(v) => {
            let _ = handle.join();
            v
        }
        Err(_) => json!({ "hang": true }),
    }
}

fn truncate(s: &str, n: usize) -> String {
    if s.len() <= n {
        s.to_string()
    } else {
        let mut end = n;
        while !s.is_char_boundary(end) {
            end -= 1;
        }
        s[..end].to_string()
    }
}

pub fn result_json(r: SearchResult) -> Value {
    match r {
        Ok(v) => json!({ "ok": u64::from(v) }),
        Err(SearchFailure::DivergenceLimitExceeded { offset, limit }) => {
            json!({ "err": "diverge", "offset": u64::from(offset), "limit": u64::from(limit) })
        }
        Err(SearchFailure::AssumptionViolated) => json!({ "err": "assumption" }),
    }
}

pub struct Sink {
    w: std::io::BufWriter<std::fs::File>,
    pub n: u64,
}

impl Sink {
    pub fn create(path: &str) -> Sink {
        let f = std::fs::File::create(path).unwrap_or_else(|e| panic!("cannot create {}: {}", path, e));
        Sink {
            w: std::io::BufWriter::new(f),
            n: 0,
        }
    }
    pub fn event(&mut self, op: &str, input: Value, out: Value) {
        if out.get("harness_error").is_some() {
            eprintln!("HARNESS-ERROR op={} in={} out={}", op, input, out);
            std::process::exit(2);
        }
        let line = json!({ "op": op, "in": input, "out": out });
        writeln!(self.w, "{}", line).unwrap();
        self.n += 1;
    }
    pub fn raw(&mut self, v: &Value) {
        writeln!(self.w, "{}", v).unwrap();
        self.n += 1;
    }
    pub fn flush(&mut self) {
        self.w.flush().unwrap();
    }
    pub fn finish(mut self) -> u64 {
        self.w.flush().unwrap();
        self.n
    }
}
