//! C17: hardening walks.  Each walk starts from a base system ("reset") and
//! applies single-parameter hardenings; after every step all analyses are
//! re-run and the result vector is recorded.

use rand::Rng;
use serde_json::{json, Map, Value};

use crate::describe::*;
use crate::drivers::rta::{call_rta, gen_task, POLICIES};
use crate::gen;
use crate::outcome::guarded;
use crate::Ctx;

fn all_results(sys: &Value) -> Value {
    let mut m = Map::new();
    let tasks = sys["tasks"].as_array().unwrap();
    let tua = &tasks[0];
    let others: Vec<Value> = tasks[1..].to_vec();
    for p in POLICIES.iter() {
        let inp = if *p == "fifo" {
            json!({"policy": p, "lim": sys["lim"], "tua": {"C": 0}, "others": tasks, "B": 0})
        } else {
            json!({"policy": p, "lim": sys["lim"], "tua": tua, "others": others, "B": sys["B"]})
        };
        m.insert(p.to_string(), call_rta(&inp));
    }
    Value::Object(m)
}

fn results_call(inp: &Value) -> Value {
    all_results(&inp["sys"])
}

fn harder_arrival(rng: &mut rand::rngs::StdRng, a: &Value) -> (Value, &'static str) {
    match kind(a) {
        "sporadic" | "periodic" => {
            let t = u(&a["T"]);
            let j = a.get("J").and_then(|x| x.as_u64()).unwrap_or(0);
            if t > 1 && rng.gen_bool(0.5) {
                (json!({"k": "sporadic", "T": t - 1, "J": j}), "dec_period")
            } else {
                (json!({"k": "sporadic", "T": t, "J": j + rng.gen_range(1..=3)}), "inc_jitter")
            }
        }
        _ => (json!({"k": "jit", "J": rng.gen_range(1..=3), "of": a}), "inc_jitter"),
    }
}

pub fn run(ctx: &mut Ctx) {
    let walks = if ctx.thorough { 30000 } else { 3500 };
    let (tmax, limmax) = if ctx.thorough { (24, 160) } else { (10, 60) };
    for w in 0..walks {
        let mut o = if w % 3 == 0 { gen::Opts::all(tmax) } else { gen::Opts::basic(tmax) };
        o.allow_never = false;
        o.allow_derived = false;
        let n = ctx.rng.gen_range(1..=3);
        let mut tasks: Vec<Value> = (0..n).map(|_| gen_task(&mut ctx.rng, &o, 3, true)).collect();
        if gen::is_empty_model(&tasks[0]["a"]) {
            continue;
        }
        let mut b = ctx.rng.gen_range(0..=2u64);
        let mut lim = ctx.rng.gen_range(4..=limmax);
        let mut first = true;
        for _step in 0..7 {
            let mut kind_s = "reset";
            let mut op = "reset";
            if !first {
                op = "harden";
                let i = ctx.rng.gen_range(0..tasks.len());
                match ctx.rng.gen_range(0..7) {
                    0 => {
                        let c = u(&tasks[i]["C"]) + 1;
                        tasks[i]["C"] = json!(c);
                        tasks[i]["c"] = json!({"k": "scalar", "c": c});
                        kind_s = "inc_wcet";
                    }
                    1 | 2 => {
                        let (a2, k) = harder_arrival(&mut ctx.rng, &tasks[i]["a"]);
                        tasks[i]["a"] = a2;
                        kind_s = k;
                    }
                    3 => {
                        b += ctx.rng.gen_range(1..=2);
                        kind_s = "inc_blocking";
                    }
                    4 => {
                        // a longer non-preemptive segment of an *interfering* task (not the task under analysis)
                        if tasks.len() > 1 {
                            let j = ctx.rng.gen_range(1..tasks.len());
                            let sg = u(&tasks[j]["seg"]);
                            if sg < u(&tasks[j]["C"]) {
                                tasks[j]["seg"] = json!(sg + 1);
                            }
                        }
                        kind_s = "inc_np_segment";
                    }
                    5 => {
                        if tasks.len() < 5 {
                            let t = gen_task(&mut ctx.rng, &o, 3, true);
                            tasks.push(t);
                        }
                        kind_s = "add_task";
                    }
                    _ => {
                        lim += ctx.rng.gen_range(1..=20);
                        op = "raise_limit";
                        kind_s = "raise_limit";
                    }
                }
            }
            first = false;
            let sys = json!({"tasks": tasks, "B": b, "lim": lim});
            let res = guarded(&json!({"sys": sys}), ctx.watchdog_ms, results_call);
            if !res.is_object() || res.get("panic").is_some() || res.get("hang").is_some() {
                break; // abandon the walk (a panic is not C17's business)
            }
            ctx.sink.raw(&json!({"op": op, "kind": kind_s, "sys": sys, "res": res}));
        }
    }
}
