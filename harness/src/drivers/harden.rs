//! C17: hardening walks.  Each walk starts from a base system ("reset") and
//! applies single-parameter hardenings; after every step all analyses are
//! re-run and the result vector is recorded.

use rand::Rng;
use serde_json::{json, Map, Value};

use crate::describe::*;
use crate::drivers::rta::{call_rta, gen_task, POLICIES};
use crate::gen;
use crate::outcome::guarded;
use crate::Ctx;

fn all_results(sys: &Value) -> Value {
    let mut m = Map::new();
    let tasks = sys["tasks"].as_array().unwrap();
    let tua = &tasks[0];
    let others: Vec<Value> = tasks[1..].to_vec();
    for p in POLICIES.iter() {
        let inp = if *p == "fifo" {
            json!({"policy": p, "lim": sys["lim"], "tua": {"C": 0}, "others": tasks, "B": 0})
        } else {
            json!({"policy": p, "lim": sys["lim"], "tua": tua, "others": others, "B": sys["B"]})
        };
        m.insert(p.to_string(), call_rta(&inp));
    }
    Value::Object(m)
}

fn results_call(inp: &Value) -> Value {
    all_results(&inp["sys"])
}

fn harder_arrival(rng: &mut rand::rngs::StdRng, a: &Value) -> (Value, &'static str) {
    match kind(a) {
        "sporadic" | "periodic" => {
            let t = u(&a["T"]);
            let j = a.get("J").and_then(|x| x.as_u64()).unwrap_or(0);
            if t > 1 && rng.gen_bool(0.5) {
                (json!({"k": "sporadic", "T": t - 1, "J": j}), "dec_period")
            } else {
                (json!({"k": "sporadic", "T": t, "J": j + rng.gen_range(1..=3)}), "inc_jitter")
            }
        }
        _ => (json!({"k": "jit", "J": rng.gen_range(1..=3), "of": a}), "inc_jitter"),
    }
}

/// Fixed walks: the task under analysis releases pairs of jobs (delta-min prefix [0, T2]) and receives more and more
/// release jitter (clone_with_jitter -> Propagated); an interfering task is released shortly before the second pair
/// completes, so the maximum lies at an offset of the *second* burst -- an offset that only the steps of the
/// propagated curve bring into the search space.
fn bursty_jitter_walks(ctx: &mut Ctx) {
    for t2 in [12u64, 20] {
        for c0 in [3u64, 4] {
            // light and heavy interference (a heavy job released just before the second pair completes)
            for (t1, c1) in [(7u64, 2u64), (11, 3), (25, 16), (30, 16)] {
                for xc in [false, true] {
                    let curve = if xc { json!({"k": "xcurve", "of": {"k": "curve", "d": [0, t2]}}) } else { json!({"k": "curve", "d": [0, t2]}) };
                    let other = json!({"a": {"k": "sporadic", "T": t1, "J": 0}, "c": {"k": "scalar", "c": c1}, "C": c1, "D": t1, "seg": 1, "last": 1});
                    let mut prev_j = 0u64;
                    for (step, j) in [0u64, 1, 2, 3, 5].iter().enumerate() {
                        let a = if *j == 0 { curve.clone() } else { json!({"k": "jit", "J": j, "of": curve}) };
                        let tua = json!({"a": a, "c": {"k": "scalar", "c": c0}, "C": c0, "D": 2 * t2, "seg": 1, "last": 1});
                        let sys = json!({"tasks": [tua, other], "B": 0, "lim": 90});
                        let res = guarded(&json!({"sys": sys}), ctx.watchdog_ms, results_call);
                        if !res.is_object() || res.get("panic").is_some() || res.get("hang").is_some() {
                            break;
                        }
                        let _ = prev_j;
                        prev_j = *j;
                        ctx.sink.raw(&json!({"op": if step == 0 { "reset" } else { "harden" }, "kind": if step == 0 { "reset" } else { "inc_jitter" },
                                             "sys": sys, "res": res}));
                    }
                }
            }
        }
    }
}

/// Fixed walks: tasks with ever later deadlines and ever shorter non-preemptive segments are added one by one; the
/// blocking a task under EDF suffers is the *longest* segment among all later-deadline tasks, so no addition may lower a bound
fn edf_blocking_walks(ctx: &mut Ctx) {
    let mk = |c: u64, t: u64, dl: u64, seg: u64| json!({"a": {"k": "sporadic", "T": t, "J": 0}, "c": {"k": "scalar", "c": c}, "C": c,
                                                          "D": dl, "seg": seg, "last": 1});
    for (ct, tt, dt) in [(2u64, 50u64, 10u64), (3, 40, 12)] {
        for (c1, seg1, d1) in [(10u64, 8u64, 60u64), (6, 5, 40)] {
            for (c2, seg2, d2) in [(3u64, 2u64, 90u64), (4, 1, 70)] {
                let mut tasks = vec![mk(ct, tt, dt, 1), mk(c1, 100, d1, seg1)];
                let adds = [mk(c2, 100, d2, seg2), mk(2, 120, d2 + 30, 1)];
                for step in 0..3 {
                    if step > 0 {
                        tasks.push(adds[step - 1].clone());
                    }
                    let sys = json!({"tasks": tasks, "B": 0, "lim": 120});
                    let res = guarded(&json!({"sys": sys}), ctx.watchdog_ms, results_call);
                    if !res.is_object() || res.get("panic").is_some() || res.get("hang").is_some() {
                        break;
                    }
                    ctx.sink.raw(&json!({"op": if step == 0 { "reset" } else { "harden" }, "kind": if step == 0 { "reset" } else { "add_task" },
                                         "sys": sys, "res": res}));
                }
            }
        }
    }
}

pub fn run(ctx: &mut Ctx) {
    bursty_jitter_walks(ctx);
    edf_blocking_walks(ctx);
    let walks = if ctx.thorough { 30000 } else { 3500 };
    let (tmax, limmax) = if ctx.thorough { (24, 160) } else { (10, 60) };
    for w in 0..walks {
        let mut o = if w % 3 == 0 { gen::Opts::all(tmax) } else { gen::Opts::basic(tmax) };
        o.allow_never = false;
        o.allow_loose = false; // realisable (super-additive) delta-min prefixes only, see DESIGN.md §3.2
        o.allow_derived = false;
        let n = ctx.rng.gen_range(1..=3);
        let mut tasks: Vec<Value> = (0..n).map(|_| gen_task(&mut ctx.rng, &o, 3, true)).collect();
        if gen::is_empty_model(&tasks[0]["a"]) {
            continue;
        }
        let mut b = ctx.rng.gen_range(0..=2u64);
        let mut lim = ctx.rng.gen_range(4..=limmax);
        let mut first = true;
        for _step in 0..7 {
            let mut kind_s = "reset";
            let mut op = "reset";
            if !first {
                op = "harden";
                let i = ctx.rng.gen_range(0..tasks.len());
                match ctx.rng.gen_range(0..7) {
                    0 => {
                        let c = u(&tasks[i]["C"]) + 1;
                        tasks[i]["C"] = json!(c);
                        tasks[i]["c"] = json!({"k": "scalar", "c": c});
                        kind_s = "inc_wcet";
                    }
                    1 | 2 => {
                        let (a2, k) = harder_arrival(&mut ctx.rng, &tasks[i]["a"]);
                        tasks[i]["a"] = a2;
                        kind_s = k;
                    }
                    3 => {
                        b += ctx.rng.gen_range(1..=2);
                        kind_s = "inc_blocking";
                    }
                    4 => {
                        // a longer non-preemptive segment of an *interfering* task (not the task under analysis)
                        if tasks.len() > 1 {
                            let j = ctx.rng.gen_range(1..tasks.len());
                            let sg = u(&tasks[j]["seg"]);
                            if sg < u(&tasks[j]["C"]) {
                                tasks[j]["seg"] = json!(sg + 1);
                            }
                        }
                        kind_s = "inc_np_segment";
                    }
                    5 => {
                        if tasks.len() < 5 {
                            let t = gen_task(&mut ctx.rng, &o, 3, true);
                            tasks.push(t);
                        }
                        kind_s = "add_task";
                    }
                    _ => {
                        lim += ctx.rng.gen_range(1..=20);
                        op = "raise_limit";
                        kind_s = "raise_limit";
                    }
                }
            }
            first = false;
            let sys = json!({"tasks": tasks, "B": b, "lim": lim});
            let res = guarded(&json!({"sys": sys}), ctx.watchdog_ms, results_call);
            if !res.is_object() || res.get("panic").is_some() || res.get("hang").is_some() {
                break; // abandon the walk (a panic is not C17's business)
            }
            ctx.sink.raw(&json!({"op": op, "kind": kind_s, "sys": sys, "res": res}));
        }
    }
}

// ---------------------------------------------------------------------------
// ROS 2 analyses (scalar costs): walks incl. supply weakening

use crate::drivers::ros2::call_ros2;

fn ros_rbf(t: &Value) -> Value {
    json!({"dm": {"k": "rbf", "a": t["a"], "c": {"k": "scalar", "c": t["C"]}}})
}

fn ros_agg(ts: &[Value]) -> Value {
    let parts: Vec<Value> = ts.iter().map(|t| json!({"k": "rbf", "a": t["a"], "c": {"k": "scalar", "c": t["C"]}})).collect();
    json!({"dm": {"k": "agg", "of": parts}})
}

fn ros_results(sys: &Value) -> Value {
    let ts = sys["tasks"].as_array().unwrap();
    let own = &ts[0];
    let rest: Vec<Value> = ts[1..].to_vec();
    let sup = &sys["supply"];
    let lim = &sys["lim"];
    let mut m = Map::new();
    m.insert("es".into(), call_ros2(&json!({"op": "ros2_es", "supply": sup, "lim": lim, "own": ros_agg(ts)})));
    m.insert("timer".into(), call_ros2(&json!({"op": "ros2_timer", "supply": sup, "lim": lim, "own": ros_rbf(own),
                                                "hp": ros_agg(&rest), "B": sys["B"]})));
    m.insert("pp".into(), call_ros2(&json!({"op": "ros2_pp", "supply": sup, "lim": lim, "own": ros_rbf(own), "others": ros_agg(&rest)})));
    // chain: own = last callback, prefix with WCET P on the same source
    let pfx = json!({"a": own["a"], "C": sys["P"]});
    let full = json!({"a": own["a"], "C": u(&own["C"]) + u(&sys["P"])});
    m.insert("chain".into(), call_ros2(&json!({"op": "ros2_chain", "supply": sup, "lim": lim, "last": ros_rbf(own),
                                                "prefix": ros_rbf(&pfx), "full": ros_rbf(&full), "others": ros_agg(&rest)})));
    // rr / bw: all callbacks with their kinds and assumed bounds; singleton subchain of the first one
    let wl: Vec<Value> = ts
        .iter()
        .map(|t| json!({"t": t["t"], "p": t["p"], "R": t["Rhat"], "a": t["a"], "c": {"k": "scalar", "c": t["C"]}}))
        .collect();
    for op in ["ros2_rr", "ros2_bw"] {
        m.insert(op[5..].to_string(), call_ros2(&json!({"op": op, "supply": sup, "lim": lim, "workload": wl, "sub": [1]})));
        if ts.len() >= 2 {
            m.insert(format!("{}_chain", &op[5..]),
                     call_ros2(&json!({"op": op, "supply": sup, "lim": lim, "workload": wl, "sub": [2, 1]})));
        }
    }
    Value::Object(m)
}

fn ros_results_call(inp: &Value) -> Value {
    ros_results(&inp["sys"])
}

fn ros_task(rng: &mut rand::rngs::StdRng, o: &gen::Opts) -> Value {
    let mut t = gen_task(rng, o, 3, true);
    let c = u(&t["C"]);
    let kd = ["timer", "unknown", "polled", "es"][rng.gen_range(0..4)];
    t["t"] = json!(kd);
    t["p"] = json!(rng.gen_range(0..4));
    t["Rhat"] = json!(c + rng.gen_range(0..=8));
    t
}

pub fn run_ros2(ctx: &mut Ctx) {
    let walks = if ctx.thorough { 12000 } else { 1300 };
    let (tmax, limmax) = if ctx.thorough { (20, 120) } else { (10, 50) };
    for _w in 0..walks {
        let mut o = gen::Opts::basic(tmax);
        o.allow_never = false;
        o.allow_loose = false; // realisable (super-additive) delta-min prefixes only, see DESIGN.md §3.2
        let n = ctx.rng.gen_range(1..=3);
        let mut tasks: Vec<Value> = (0..n).map(|_| ros_task(&mut ctx.rng, &o)).collect();
        let mut b = ctx.rng.gen_range(0..=2u64);
        let mut pfx = ctx.rng.gen_range(1..=3u64);
        let mut lim = ctx.rng.gen_range(4..=limmax);
        let mut supply = crate::drivers::ros2::gen_supply(&mut ctx.rng, 6);
        let mut first = true;
        for _step in 0..7 {
            let mut kind_s = "reset";
            let mut op = "reset";
            if !first {
                op = "harden";
                let i = ctx.rng.gen_range(0..tasks.len());
                match ctx.rng.gen_range(0..8) {
                    0 => {
                        tasks[i]["C"] = json!(u(&tasks[i]["C"]) + 1);
                        // the assumed bound of a callback is never below its WCET
                        tasks[i]["Rhat"] = json!(u(&tasks[i]["Rhat"]) + 1);
                        kind_s = "inc_wcet";
                    }
                    1 => {
                        let (a2, k) = harder_arrival(&mut ctx.rng, &tasks[i]["a"]);
                        tasks[i]["a"] = a2;
                        kind_s = k;
                    }
                    2 => {
                        b += 1;
                        pfx += ctx.rng.gen_range(0..=1);
                        kind_s = "inc_blocking";
                    }
                    3 => {
                        if tasks.len() < 4 {
                            let t = ros_task(&mut ctx.rng, &o);
                            tasks.push(t);
                        }
                        kind_s = "add_callback";
                    }
                    4 | 5 => {
                        // a supply that provides less service in every window
                        kind_s = "weaken_supply";
                        supply = match kind(&supply) {
                            "dedicated" => {
                                let k = ctx.rng.gen_range(1..=4u64);
                                json!({"k": "constrained", "Q": k, "D": k, "P": k})
                            }
                            "periodic" => {
                                let (q, p) = (u(&supply["Q"]), u(&supply["P"]));
                                if q > 1 && ctx.rng.gen_bool(0.5) {
                                    json!({"k": "periodic", "Q": q - 1, "P": p})
                                } else {
                                    json!({"k": "periodic", "Q": q, "P": p + 1})
                                }
                            }
                            _ => {
                                let (q, dl, p) = (u(&supply["Q"]), u(&supply["D"]), u(&supply["P"]));
                                match ctx.rng.gen_range(0..3) {
                                    0 if q > 1 => json!({"k": "constrained", "Q": q - 1, "D": dl, "P": p}),
                                    1 if dl < p => json!({"k": "constrained", "Q": q, "D": dl + 1, "P": p}),
                                    _ => json!({"k": "constrained", "Q": q, "D": dl, "P": p + 1}),
                                }
                            }
                        };
                    }
                    _ => {
                        lim += ctx.rng.gen_range(1..=20);
                        op = "raise_limit";
                        kind_s = "raise_limit";
                    }
                }
            }
            first = false;
            let sys = json!({"tasks": tasks, "B": b, "P": pfx, "lim": lim, "supply": supply});
            let res = guarded(&json!({"sys": sys}), ctx.watchdog_ms, ros_results_call);
            if !res.is_object() || res.get("panic").is_some() || res.get("hang").is_some() {
                break;
            }
            ctx.sink.raw(&json!({"op": op, "kind": kind_s, "sys": sys, "res": res}));
        }
    }
}
