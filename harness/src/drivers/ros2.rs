//! C07 (and the claims for C04 / C05): the six ROS 2 analyses.

use rand::Rng;
use response_time_analysis::arrival::ArrivalBound;
use response_time_analysis::ros2;
use response_time_analysis::wcet::JobCostModel;
use serde_json::{json, Value};

use crate::describe::*;
use crate::drivers::arrival::demand_tree;
use crate::gen;
use crate::outcome::*;
use crate::Ctx;

pub fn cb_kind(v: &Value) -> ros2::rr::CallbackType {
    match v["t"].as_str().unwrap() {
        "timer" => ros2::rr::CallbackType::Timer,
        "es" => ros2::rr::CallbackType::EventSource,
        "unknown" => ros2::rr::CallbackType::PolledUnknownPrio,
        "polled" => ros2::rr::CallbackType::Polled(v["p"].as_i64().unwrap() as i32),
        k => panic!("harness: callback kind {}", k),
    }
}

/// inp: {supply, lim, ...}; op selects the analysis
pub fn call_ros2(inp: &Value) -> Value {
    let op = inp["op"].as_str().unwrap();
    let sup = build_supply(&inp["supply"]);
    let lim = d(u(&inp["lim"]));
    let res = match op {
        "ros2_es" => ros2::rta_event_source(&sup, &build_demand(&inp["own"]["dm"]), lim),
        "ros2_timer" => ros2::rta_timer(
            &sup,
            &build_demand(&inp["own"]["dm"]),
            &build_demand(&inp["hp"]["dm"]),
            s(u(&inp["B"])),
            lim,
        ),
        "ros2_pp" => ros2::rta_polling_point_callback(
            &sup,
            &build_demand(&inp["own"]["dm"]),
            &build_demand(&inp["others"]["dm"]),
            lim,
        ),
        "ros2_chain" => ros2::rta_processing_chain(
            &sup,
            &build_demand(&inp["last"]["dm"]),
            &build_demand(&inp["prefix"]["dm"]),
            &build_demand(&inp["full"]["dm"]),
            &build_demand(&inp["others"]["dm"]),
            lim,
        ),
        "ros2_rr" | "ros2_bw" => {
            let wl = inp["workload"].as_array().unwrap();
            let abs: Vec<AB> = wl.iter().map(|c| build_arrival(&c["a"])).collect();
            let cms: Vec<CM> = wl.iter().map(|c| build_cost(&c["c"])).collect();
            let sub: Vec<usize> = us(&inp["sub"]).into_iter().map(|i| i as usize - 1).collect();
            if op == "ros2_rr" {
                let cbs: Vec<ros2::rr::Callback<dyn ArrivalBound, dyn JobCostModel>> = (0..wl.len())
                    .map(|i| ros2::rr::Callback::new(d(u(&wl[i]["R"])), &*abs[i], &*cms[i], cb_kind(&wl[i])))
                    .collect();
                let sc: Vec<&ros2::rr::Callback<dyn ArrivalBound, dyn JobCostModel>> = sub.iter().map(|i| &cbs[*i]).collect();
                ros2::rr::rta_subchain(&sup, &cbs[..], &sc[..], lim)
            } else {
                let cbs: Vec<ros2::bw::Callback<dyn ArrivalBound, dyn JobCostModel>> = (0..wl.len())
                    .map(|i| ros2::bw::Callback::new(d(u(&wl[i]["R"])), &*abs[i], &*cms[i], cb_kind(&wl[i])))
                    .collect();
                let sc: Vec<&ros2::bw::Callback<dyn ArrivalBound, dyn JobCostModel>> = sub.iter().map(|i| &cbs[*i]).collect();
                ros2::bw::rta_subchain(&sup, &cbs[..], &sc[..], lim)
            }
        }
        o => panic!("harness: unknown ros2 op {}", o),
    };
    result_json(res)
}

fn demand_tables_call(inp: &Value) -> Value {
    let rb = build_demand(&inp["dm"]);
    let h = u(&inp["H"]);
    let sn: Vec<u64> = (0..=h).map(|x| u64::from(rb.service_needed(d(x)))).collect();
    let lw: Vec<u64> = (0..=h).map(|x| u64::from(rb.least_wcet_in_interval(d(x)))).collect();
    // the smallest job cost in the interval, read off job_cost_iter (0 = no job)
    let mj: Vec<u64> = (0..=h).map(|x| rb.job_cost_iter(d(x)).map(u64::from).min().unwrap_or(0)).collect();
    json!({"sn": sn, "lw": lw, "mj": mj})
}

/// {"dm": desc, "sn": [...], "lw": [...]}
pub fn demand_rec(dm: &Value, h: u64, wd: u64) -> Option<Value> {
    let out = guarded(&json!({"dm": dm, "H": h}), wd, demand_tables_call);
    out.get("sn")?;
    Some(json!({"dm": dm, "sn": out["sn"], "lw": out["lw"], "mj": out["mj"]}))
}

fn cb_tables_call(inp: &Value) -> Value {
    let ab = build_arrival(&inp["a"]);
    let cm = build_cost(&inp["c"]);
    let h = u(&inp["H"]);
    let eta: Vec<u64> = (0..=h).map(|x| ab.number_arrivals(d(x)) as u64).collect();
    let mx = *eta.iter().max().unwrap() as usize + 2;
    let cost: Vec<u64> = (0..=mx).map(|n| u64::from(cm.cost_of_jobs(n))).collect();
    json!({"eta": eta, "cost": cost})
}

pub fn cb_rec(cb: &Value, h: u64, wd: u64) -> Option<Value> {
    let out = guarded(&json!({"a": cb["a"], "c": cb["c"], "H": h}), wd, cb_tables_call);
    out.get("eta")?;
    let mut c = cb.clone();
    c["eta"] = out["eta"].clone();
    c["cost"] = out["cost"].clone();
    Some(c)
}

fn first_steps_call(inp: &Value) -> Value {
    let ab = build_arrival(&inp["a"]);
    json!(ab.steps_iter().take(8).map(u64::from).collect::<Vec<u64>>())
}

pub fn gen_supply(rng: &mut rand::rngs::StdRng, pmax: u64) -> Value {
    let p = rng.gen_range(1..=pmax);
    let q = rng.gen_range(1..=p);
    let dl = rng.gen_range(q..=p);
    match rng.gen_range(0..4) {
        0 => json!({"k": "dedicated"}),
        1 => json!({"k": "periodic", "Q": q, "P": p}),
        _ => json!({"k": "constrained", "Q": q, "D": dl, "P": p}),
    }
}

fn rbf_leaf(rng: &mut rand::rngs::StdRng, o: &gen::Opts, cmax: u64) -> Value {
    json!({"k": "rbf", "a": gen::arrival(rng, 1, o), "c": gen::cost(rng, cmax, false)})
}

fn tagged(mut inp: Value) -> Value {
    let mut tags: Vec<String> = vec![];
    for key in ["own", "hp", "others", "last", "prefix", "full"] {
        if let Some(dm) = inp.get(key).and_then(|x| x.get("dm")) {
            tags.extend(crate::drivers::arrival::demand_tags(dm));
        }
    }
    tags.sort();
    tags.dedup();
    inp["tags"] = json!(tags);
    inp
}

pub fn run(ctx: &mut Ctx) {
    let only: Option<Vec<usize>> = ctx.arg("--kinds").map(|p| p.split(',').map(|x| x.parse().unwrap()).collect());
    let n = if ctx.thorough { 90000 } else { 15000 };
    let (tmax, limmax, pmax) = if ctx.thorough { (24, 120, 10) } else { (10, 50, 6) };
    let wd = ctx.watchdog_ms;
    let wants = |k: usize| only.as_ref().map(|o| o.contains(&k)).unwrap_or(true);
    if wants(2) {
        // fixed inputs that reproduce the listed findings F15 and F9 on every run
        let sup = json!({"k": "dedicated"});
        let own = json!({"k": "rbf", "a": {"k": "periodic", "T": 7}, "c": {"k": "wxcurve", "of": {"k": "wcurve", "w": [3, 4]}}});
        let others = json!({"k": "rbf", "a": {"k": "sum", "a": {"k": "sporadic", "T": 7, "J": 0},
                            "b": {"k": "xcurve", "of": {"k": "curve", "d": [5, 10, 20, 30]}}}, "c": {"k": "multiframe", "cs": [2]}});
        if let (Some(o1), Some(o2)) = (demand_rec(&own, 92, wd), demand_rec(&others, 92, wd)) {
            ctx.call("ros2_pp", tagged(json!({"op": "ros2_pp", "supply": sup, "lim": 44, "own": o1, "others": o2})), call_ros2);
        }
        let acp = json!({"k": "rbf", "a": {"k": "acp", "h": 10, "steps": [[1, 1], [5, 2]]}, "c": {"k": "scalar", "c": 1}});
        let oth = json!({"k": "rbf", "a": {"k": "periodic", "T": 9}, "c": {"k": "scalar", "c": 1}});
        if let (Some(o1), Some(o2)) = (demand_rec(&acp, 64, wd), demand_rec(&oth, 64, wd)) {
            ctx.call("ros2_pp", tagged(json!({"op": "ros2_pp", "supply": sup, "lim": 30, "own": o1, "others": o2})), call_ros2);
        }
    }
    if wants(1) {
        // enumerated timers whose later instances are cheaper than the first, several instances per busy window
        // (offsets > 0): the interference window prefix + response - least_wcet + 1 depends on the offset
        for sup in [json!({"k": "dedicated"}), json!({"k": "periodic", "Q": 3, "P": 4}), json!({"k": "constrained", "Q": 2, "D": 2, "P": 3})] {
            for frames in [vec![5u64, 2], vec![4, 1], vec![3, 1, 1], vec![6, 2, 2]] {
                for (t_own, c_hp, t_hp) in [(13u64, 4u64, 9u64), (9, 2, 7), (11, 3, 8), (16, 5, 11)] {
                    for b in [0u64, 2] {
                        let w: Vec<u64> = frames.iter().scan(0, |acc, x| { *acc += *x; Some(*acc) }).collect();
                        for c in [json!({"k": "multiframe", "cs": frames}), json!({"k": "wcurve", "w": w})] {
                            let own = json!({"k": "rbf", "a": {"k": "periodic", "T": t_own}, "c": c});
                            let hp = json!({"k": "rbf", "a": {"k": "sporadic", "T": t_hp, "J": b}, "c": {"k": "scalar", "c": c_hp}});
                            if let (Some(o1), Some(o2)) = (demand_rec(&own, 244, wd), demand_rec(&hp, 244, wd)) {
                                ctx.call("ros2_timer", tagged(json!({"op": "ros2_timer", "supply": sup, "lim": 120, "own": o1, "hp": o2, "B": b})), call_ros2);
                            }
                        }
                    }
                }
            }
        }
    }
    if wants(2) || wants(3) {
        // enumerated polling-point callbacks / chains whose own arrivals come in bursts of one, two or three (release
        // jitter of 0, T, 2T) next to a dense interferer, under three supplies: the interference window
        // prefix + response - least_wcet + 1 then has to be right for the *last* instance of a burst
        for sup in [json!({"k": "dedicated"}), json!({"k": "periodic", "Q": 4, "P": 5}), json!({"k": "constrained", "Q": 2, "D": 3, "P": 4})] {
            for j_own in [0u64, 30, 60] {
                for c_own in [2u64, 3] {
                    for (t_o, c_o) in [(6u64, 2u64), (9, 4)] {
                        let own = json!({"k": "rbf", "a": {"k": "sporadic", "T": 30, "J": j_own}, "c": {"k": "scalar", "c": c_own}});
                        let others = json!({"k": "rbf", "a": {"k": "periodic", "T": t_o}, "c": {"k": "scalar", "c": c_o}});
                        let pre = json!({"k": "rbf", "a": {"k": "sporadic", "T": 30, "J": j_own}, "c": {"k": "scalar", "c": 2}});
                        let full = json!({"k": "rbf", "a": {"k": "sporadic", "T": 30, "J": j_own}, "c": {"k": "scalar", "c": c_own + 2}});
                        if let (Some(o1), Some(o2), Some(p1), Some(f1)) = (demand_rec(&own, 304, wd), demand_rec(&others, 304, wd), demand_rec(&pre, 304, wd), demand_rec(&full, 304, wd)) {
                            if wants(2) {
                                ctx.call("ros2_pp", tagged(json!({"op": "ros2_pp", "supply": sup, "lim": 150, "own": o1, "others": o2})), call_ros2);
                            }
                            if wants(3) {
                                ctx.call("ros2_chain", tagged(json!({"op": "ros2_chain", "supply": sup, "lim": 150, "last": o1, "prefix": p1, "full": f1, "others": o2})), call_ros2);
                            }
                        }
                    }
                }
            }
        }
    }
    if wants(4) || wants(5) {
        // enumerated rr / bw workloads with two polled callbacks of known priority -- equal, lower, higher -- where the
        // interferer is dense (short period) and the analysed callback long, so that the polling-point cap on the
        // interferer's instances binds; optionally a third callback stretches the busy window
        for sup in [json!({"k": "dedicated"}), json!({"k": "periodic", "Q": 3, "P": 4})] {
            for (c_ua, r_ua) in [(8u64, 20u64), (20, 30)] {
                for (t_o, c_o) in [(5u64, 2u64), (10, 3)] {
                    // (kind, priority) of the analysed callback and of the dense interferer: known priorities equal / lower /
                    // higher, and every mix of polled-known, polled-unknown and timer
                    for (k_ua, p_ua, k_o, p_o) in [("polled", 1i64, "polled", 1i64), ("polled", 1, "polled", 0), ("polled", 0, "polled", 1),
                                                   ("unknown", 0, "polled", 1), ("polled", 1, "unknown", 0), ("unknown", 0, "unknown", 0),
                                                   ("polled", 1, "timer", 0), ("timer", 0, "polled", 1)] {
                        for third in [0usize, 1, 2] {
                            let mut wl = vec![
                                json!({"t": k_ua, "p": p_ua, "R": r_ua, "a": {"k": "periodic", "T": 100}, "c": {"k": "scalar", "c": c_ua}}),
                                json!({"t": k_o, "p": p_o, "R": 30, "a": {"k": "periodic", "T": t_o}, "c": {"k": "scalar", "c": c_o}}),
                            ];
                            if third == 1 {
                                wl.push(json!({"t": "timer", "p": 0, "R": 12, "a": {"k": "periodic", "T": 40}, "c": {"k": "scalar", "c": 4}}));
                            } else if third == 2 {
                                wl.push(json!({"t": "unknown", "p": 0, "R": 40, "a": {"k": "sporadic", "T": 50, "J": 3}, "c": {"k": "scalar", "c": 6}}));
                            }
                            let recs: Vec<Option<Value>> = wl.iter().map(|c| cb_rec(c, 120 + 40 + 24, wd)).collect();
                            if recs.iter().any(|r| r.is_none()) {
                                continue;
                            }
                            let wl: Vec<Value> = recs.into_iter().map(|r| r.unwrap()).collect();
                            for (k, op) in [(4usize, "ros2_rr"), (5, "ros2_bw")] {
                                if wants(k) {
                                    for sub in [json!([1]), json!([2]), json!([2, 1])] {
                                        ctx.call(op, json!({"op": op, "supply": sup, "lim": 120, "workload": wl, "sub": sub, "tags": []}), call_ros2);
                                    }
                                }
                            }
                        }
                    }
                }
            }
        }
    }
    for i in 0..n {
        if let Some(k) = &only {
            if !k.contains(&(i % 6)) {
                continue;
            }
        }
        let mut o = if i % 5 == 0 { gen::Opts::all(tmax) } else { gen::Opts::basic(tmax) };
        o.allow_never = false;
        let supply = gen_supply(&mut ctx.rng, pmax);
        let lim = if ctx.rng.gen_bool(0.3) { ctx.rng.gen_range(1..=10) } else { ctx.rng.gen_range(5..=limmax) };
        let h = 2 * lim + 4;
        match i % 6 {
            0 => {
                let own = demand_tree(&mut ctx.rng, 1, &o, 4);
                if let Some(own) = demand_rec(&own, h, wd) {
                    ctx.call("ros2_es", tagged(json!({"op": "ros2_es", "supply": supply, "lim": lim, "own": own})), call_ros2);
                }
            }
            1 => {
                let own = rbf_leaf(&mut ctx.rng, &o, 4);
                let hp = demand_tree(&mut ctx.rng, 1, &o, 3);
                if let (Some(own), Some(hp)) = (demand_rec(&own, h, wd), demand_rec(&hp, h, wd)) {
                    let b = ctx.rng.gen_range(0..=4u64);
                    ctx.call("ros2_timer", tagged(json!({"op": "ros2_timer", "supply": supply, "lim": lim, "own": own, "hp": hp, "B": b})), call_ros2);
                }
            }
            2 => {
                let own = rbf_leaf(&mut ctx.rng, &o, 4);
                let others = demand_tree(&mut ctx.rng, 1, &o, 3);
                if let (Some(own), Some(others)) = (demand_rec(&own, h, wd), demand_rec(&others, h, wd)) {
                    ctx.call("ros2_pp", tagged(json!({"op": "ros2_pp", "supply": supply, "lim": lim, "own": own, "others": others})), call_ros2);
                }
            }
            3 => {
                // a chain: prefix + last = full.  Half of the time the whole chain sits on the source's curve
                // (scalar costs, as the crate's tests do); otherwise the last callback has its own (jittered)
                // curve and the full chain is the aggregate of prefix and last
                let a = gen::arrival(&mut ctx.rng, 1, &o);
                let cl = ctx.rng.gen_range(1..=3u64);
                let cp = ctx.rng.gen_range(1..=4u64);
                let (last, prefix, full) = if i % 12 < 6 {
                    (json!({"k": "rbf", "a": a, "c": {"k": "scalar", "c": cl}}),
                     json!({"k": "rbf", "a": a, "c": {"k": "scalar", "c": cp}}),
                     json!({"k": "rbf", "a": a, "c": {"k": "scalar", "c": cl + cp}}))
                } else {
                    let la = json!({"k": "jit", "J": ctx.rng.gen_range(1..=tmax), "of": a});
                    let l = json!({"k": "rbf", "a": la, "c": {"k": "scalar", "c": cl}});
                    let p = json!({"k": "rbf", "a": a, "c": {"k": "scalar", "c": cp}});
                    let f = json!({"k": "agg", "of": [p.clone(), l.clone()]});
                    (l, p, f)
                };
                let others = demand_tree(&mut ctx.rng, 1, &o, 3);
                if let (Some(l), Some(p), Some(f), Some(ot)) =
                    (demand_rec(&last, h, wd), demand_rec(&prefix, h, wd), demand_rec(&full, h, wd), demand_rec(&others, h, wd))
                {
                    ctx.call("ros2_chain", tagged(json!({"op": "ros2_chain", "supply": supply, "lim": lim, "last": l, "prefix": p, "full": f, "others": ot})), call_ros2);
                }
            }
            _ => {
                let ncb = ctx.rng.gen_range(1..=4usize);
                let mut wl = vec![];
                let mut ok = true;
                let rmax = 20u64;
                for j in 0..ncb {
                    let t = ["timer", "es", "unknown", "polled", "polled", "unknown"][ctx.rng.gen_range(0..6)];
                    let sc = ctx.rng.gen_bool(0.6);
                    let c = gen::cost(&mut ctx.rng, 3, sc);
                    let c1 = crate::drivers::rta::first_cost(&c);
                    let a = gen::arrival(&mut ctx.rng, 1, &o);
                    let mut r = c1 + ctx.rng.gen_range(0..=rmax);
                    if ctx.rng.gen_bool(0.5) {
                        // an assumed bound that sits exactly on a step of the callback's own arrival curve, or one below
                        let st = guarded(&json!({"a": a}), wd, first_steps_call);
                        if let Some(v) = st.as_array() {
                            let cands: Vec<u64> = v.iter().filter_map(|x| x.as_u64()).filter(|x| *x >= c1 && *x <= c1 + 3 * rmax).collect();
                            if !cands.is_empty() {
                                r = cands[ctx.rng.gen_range(0..cands.len())] - if ctx.rng.gen_bool(0.3) && cands[0] > c1 { 1 } else { 0 };
                                r = r.max(c1);
                            }
                        }
                    }
                    let cb = json!({"t": t, "p": ctx.rng.gen_range(0..=3) as i64 + (j as i64 % 2), "R": r,
                                    "a": a, "c": c});
                    match cb_rec(&cb, lim + r + rmax + 4, wd) {
                        Some(c) => wl.push(c),
                        None => ok = false,
                    }
                }
                if !ok {
                    continue;
                }
                // a subchain: a non-empty sequence of distinct callbacks
                let mut idx: Vec<u64> = (1..=ncb as u64).collect();
                for k in (1..idx.len()).rev() {
                    let j = ctx.rng.gen_range(0..=k);
                    idx.swap(k, j);
                }
                let sl = if ctx.rng.gen_bool(0.5) { 1 } else { ctx.rng.gen_range(1..=ncb) };
                let sub: Vec<u64> = idx[..sl].to_vec();
                let mut tags: Vec<String> = wl.iter().flat_map(|c| gen::tags(&c["a"])).collect();
                tags.sort();
                tags.dedup();
                let op = if i % 6 == 4 { "ros2_rr" } else { "ros2_bw" };
                ctx.call(op, json!({"op": op, "supply": supply, "lim": lim, "workload": wl, "sub": sub, "tags": tags}), call_ros2);
            }
        }
    }
}

/// The scenarios of the repository's own ROS 2 unit tests (src/ros2/tests.rs) with the values pinned there
/// (see drivers/rta.rs::run_suite); the rr / bw scenarios with periods of 10^3..10^4 are beyond TLC's reach.
pub fn run_suite(ctx: &mut Ctx) {
    let wd = ctx.watchdog_ms;
    let sup = json!({"k": "periodic", "Q": 3, "P": 5});
    let rbf = |a: Value, c: u64| json!({"k": "rbf", "a": a, "c": {"k": "scalar", "c": c}});
    let per = |t: u64| json!({"k": "periodic", "T": t});
    let spo = |t: u64, j: u64| json!({"k": "sporadic", "T": t, "J": j});
    let rec = |dm: &Value, lim: u64| demand_rec(dm, 2 * lim + 4, wd);
    let emit = |ctx: &mut Ctx, mut inp: Value, expect: i64| {
        inp["expect"] = json!(expect);
        inp["tags"] = json!(["suite"]);
        let op = inp["op"].as_str().unwrap().to_string();
        ctx.call(&op, inp, call_ros2);
    };
    // ros2_event_source
    if let Some(own) = rec(&rbf(spo(5, 2), 2), 100) {
        emit(ctx, json!({"op": "ros2_es", "supply": sup, "lim": 100, "own": own}), 7);
    }
    // ros2_timer_periodic (blocking 0 and 4), ros2_timer_sporadic
    let own = rbf(per(10), 1);
    let hp = json!({"k": "agg", "of": [rbf(per(10), 1), rbf(per(20), 3)]});
    if let (Some(o), Some(h)) = (rec(&own, 100), rec(&hp, 100)) {
        emit(ctx, json!({"op": "ros2_timer", "supply": sup, "lim": 100, "own": o, "hp": h, "B": 0}), 12);
        emit(ctx, json!({"op": "ros2_timer", "supply": sup, "lim": 100, "own": o, "hp": h, "B": 4}), 20);
        // ros2_pp_callback: same demand, as a polled callback
        emit(ctx, json!({"op": "ros2_pp", "supply": sup, "lim": 100, "own": o, "others": h}), 12);
    }
    let hp2 = json!({"k": "dslice", "of": [rbf(per(10), 1), rbf(spo(20, 10), 3)]});
    if let (Some(o), Some(h)) = (rec(&own, 100), rec(&hp2, 100)) {
        emit(ctx, json!({"op": "ros2_timer", "supply": sup, "lim": 100, "own": o, "hp": h, "B": 0}), 17);
    }
    // ros2_chain / ros2_chain2: chain 1+2+3 every 25, other chains 3 and 3 with Sporadic(20, 25)
    let others = json!({"k": "dslice", "of": [rbf(spo(20, 25), 3), rbf(spo(20, 25), 3)]});
    if let (Some(l), Some(p), Some(f), Some(ot)) = (rec(&rbf(per(25), 3), 1000), rec(&rbf(per(25), 3), 1000), rec(&rbf(per(25), 6), 1000), rec(&others, 1000)) {
        emit(ctx, json!({"op": "ros2_chain", "supply": sup, "lim": 1000, "last": l, "prefix": p, "full": f, "others": ot}), 72);
    }
    let all_other = json!({"k": "agg", "of": [{"k": "agg", "of": [rbf(spo(20, 25), 3), rbf(spo(20, 25), 3)]}, rbf(per(25), 3)]});
    if let (Some(o), Some(ot)) = (rec(&rbf(per(25), 3), 1000), rec(&all_other, 1000)) {
        emit(ctx, json!({"op": "ros2_pp", "supply": sup, "lim": 1000, "own": o, "others": ot}), 72);
    }
    // singleton_subchain_rr / singleton_subchain_bw: one timer, cost 1, every 100, assumed bound 5 (limit lowered to 300)
    for op in ["ros2_rr", "ros2_bw"] {
        let cb = json!({"t": "timer", "p": 0, "R": 5, "a": per(100), "c": {"k": "scalar", "c": 1}});
        if let Some(c) = cb_rec(&cb, 300 + 5 + 8, wd) {
            emit(ctx, json!({"op": op, "supply": sup, "lim": 300, "workload": [c], "sub": [1]}), 5);
        }
    }
}
