//! C12 (derived curves) and C13 (a)-(c) (extrapolation).

use rand::Rng;
use response_time_analysis::arrival::{self, ArrivalBound};
use response_time_analysis::time::Offset;
use serde_json::{json, Value};

use crate::describe::*;
use crate::drivers::arrival::eta_table;
use crate::gen;
use crate::Ctx;

fn curve_trace_call(inp: &Value) -> Value {
    let c = arrival::Curve::from_trace(us(&inp["ev"]).into_iter().map(Offset::from), u(&inp["n"]) as usize);
    let h = u(&inp["H"]);
    json!({"eta": (0..=h).map(|x| c.number_arrivals(d(x)) as u64).collect::<Vec<u64>>()})
}

/// inferred prefix (spans of 2..=k consecutive events) -- used only to keep inputs well-formed
fn trace_prefix(ev: &[u64], k: usize) -> Vec<u64> {
    let mut out = vec![];
    for m in 2..=k.min(ev.len()) {
        out.push((0..=ev.len() - m).map(|i| ev[i + m - 1] - ev[i]).min().unwrap());
    }
    out
}

fn derive_call(inp: &Value) -> Value {
    let h = u(&inp["H"]);
    let src = build_arrival(&inp["src"]);
    let how = inp["how"].as_str().unwrap();
    let (der, covered): (AB, u64) = match how {
        "until" | "njobs" | "into" => {
            let c = build_curve(&json!({"k": "cfrom", "how": how, "arg": inp["arg"], "of": inp["src"]}));
            let last = u64::from(c.min_distance(usize::MAX / 2));
            (std::rc::Rc::new(c), last)
        }
        "acp" => {
            let a = build_acp(&json!({"k": "acp_from", "h": inp["arg"], "of": inp["src"]}));
            (std::rc::Rc::new(a), u(&inp["arg"]))
        }
        k => panic!("harness: derive how {}", k),
    };
    let covered = match kind(&inp["src"]) {
        "acp" | "acp_from" => covered.min(u(&inp["src"]["h"])), // a prefix object is exact up to its horizon only
        _ => covered,
    };
    let mut out = json!({"src": eta_table(&src, h), "der": eta_table(&der, h), "covered": covered});
    if inp.get("root").is_some() {
        out["root"] = json!(eta_table(&build_arrival(&inp["root"]), h));
    }
    out
}

fn dmin_iter_call(inp: &Value) -> Value {
    let ab = build_arrival(&inp["m"]);
    let h = u(&inp["H"]);
    let n = u(&inp["N"]) as usize;
    let mut items = vec![];
    let mut exhausted = false;
    let mut it = arrival::delta_min_iter(&ab);
    loop {
        match it.next() {
            None => {
                exhausted = true;
                break;
            }
            Some((k, x)) => {
                let x = u64::from(x);
                items.push(json!([k as u64, x]));
                if items.len() >= n || x > h {
                    break;
                }
            }
        }
    }
    // "exhausted" here means: the stream covers every n reachable within the horizon
    let covered = exhausted || items.last().map(|p| p[1].as_u64().unwrap() > h).unwrap_or(false);
    json!({"items": items, "eta": eta_table(&ab, h), "exhausted": covered})
}

fn curve_ext_call(inp: &Value) -> Value {
    let orig = arrival::Curve::new(us(&inp["d"]).into_iter().map(d).collect());
    let mut ext = orig.clone();
    match inp["how"].as_str().unwrap() {
        "h" => ext.extrapolate(d(u(&inp["arg"]))),
        "n" => ext.extrapolate_steps(u(&inp["arg"]) as usize),
        "b" => {
            let a = us(&inp["arg"]);
            ext.extrapolate_with_bound((d(a[0]), a[1] as usize))
        }
        k => panic!("harness: ext how {}", k),
    }
    let h = u(&inp["H"]);
    let o: Vec<u64> = (0..=h).map(|x| orig.number_arrivals(d(x)) as u64).collect();
    let e: Vec<u64> = (0..=h).map(|x| ext.number_arrivals(d(x)) as u64).collect();
    json!({"orig": o, "ext": e, "ext_last": u64::from(ext.min_distance(usize::MAX / 2))})
}

/// interval length up to which the model's own table is the tight curve of its process
fn exact_upto(m: &Value, inf: u64) -> u64 {
    match kind(m) {
        "periodic" | "sporadic" | "user" | "never" => inf,
        "xcurve" => if gen::is_superadditive(&us(&m["of"]["d"])) { inf } else { 0 },
        "curve" => if gen::is_superadditive(&us(&m["d"])) { *us(&m["d"]).last().unwrap() } else { 0 },
        "acp" | "acp_from" => u(&m["h"]),
        "prop" | "prop_sporadic" => exact_upto(&m["of"], inf).saturating_sub(u(&m["J"])).min(inf),
        "jit" => match kind(&m["of"]) {
            "periodic" | "sporadic" | "user" | "never" => inf,
            _ => exact_upto(&m["of"], inf).saturating_sub(u(&m["J"])),
        },
        "sum" => exact_upto(&m["a"], inf).min(exact_upto(&m["b"], inf)),
        "vec" | "slice" => m["of"].as_array().unwrap().iter().map(|x| exact_upto(x, inf)).min().unwrap_or(inf),
        "wrap" => exact_upto(&m["of"], inf),
        _ => 0,
    }
}

fn eta1_call(inp: &Value) -> Value {
    json!(build_arrival(&inp["m"]).number_arrivals(d(1)) as u64)
}

fn is_exact_source(m: &Value) -> bool {
    match kind(m) {
        "periodic" | "sporadic" => true,
        "xcurve" => gen::is_superadditive(&us(&m["of"]["d"])),
        "sum" => is_exact_source(&m["a"]) && is_exact_source(&m["b"]),
        "vec" | "slice" => m["of"].as_array().unwrap().iter().all(is_exact_source) && !m["of"].as_array().unwrap().is_empty(),
        "wrap" => is_exact_source(&m["of"]),
        _ => false,
    }
}

/// spec -> impl: traces generated by TLC (MCFromTrace) replayed for every prefix length
fn replay_traces(ctx: &mut Ctx, path: &str) {
    let text = std::fs::read_to_string(path).expect("traces file");
    for line in text.lines().filter(|l| !l.trim().is_empty()) {
        let v: Value = serde_json::from_str(line).expect("trace json");
        let ev = us(&v["tr"]);
        for k in 2..=ev.len() + 1 {
            let pre = trace_prefix(&ev, k);
            if pre.is_empty() || *pre.last().unwrap() == 0 {
                continue;
            }
            let span = ev[ev.len() - 1];
            ctx.call("curve_trace", json!({"ev": ev, "n": k, "H": 2 * span + 3, "from": "tlc"}), curve_trace_call);
        }
    }
}

pub fn run_c12(ctx: &mut Ctx) {
    if let Some(path) = ctx.arg("--traces") {
        replay_traces(ctx, &path);
        return;
    }
    // (a) every trace with <= nmax events and gaps 0..gmax, every prefix length
    let (nmax, gmax) = if ctx.thorough { (7usize, 4u64) } else { (5, 3) };
    let mut stack: Vec<Vec<u64>> = vec![vec![0]];
    while let Some(ev) = stack.pop() {
        if ev.len() >= 2 {
            for k in 2..=ev.len() + 1 {
                let pre = trace_prefix(&ev, k);
                if pre.is_empty() || *pre.last().unwrap() == 0 {
                    continue; // not well-formed: the inferred prefix must end > 0
                }
                let span = ev[ev.len() - 1];
                let inp = json!({"ev": ev, "n": k, "H": 2 * span + 3});
                ctx.call("curve_trace", inp, curve_trace_call);
            }
        }
        if ev.len() < nmax {
            for g in 0..=gmax {
                let mut e2 = ev.clone();
                e2.push(ev[ev.len() - 1] + g);
                stack.push(e2);
            }
        }
    }
    let nr = if ctx.thorough { 6000 } else { 600 };
    let tm = if ctx.thorough { 30 } else { 12 };
    // delta_min_iter of models with finitely many (here: no) steps ends instead of spinning
    for m in [json!({"k": "never"}), json!({"k": "wrap", "w": "rc", "of": {"k": "never"}}),
              json!({"k": "sum", "a": {"k": "never"}, "b": {"k": "never"}})] {
        ctx.call("dmin_iter", json!({"m": m, "H": 10, "N": 40, "tags": gen::tags(&m)}), dmin_iter_call);
    }
    for i in 0..nr {
        // random longer traces
        let n = ctx.rng.gen_range(3..=14);
        let mut t = 0u64;
        let mut ev = vec![];
        for _ in 0..n {
            ev.push(t);
            t += if ctx.rng.gen_bool(0.25) { 0 } else { ctx.rng.gen_range(1..=tm) };
        }
        let k = ctx.rng.gen_range(2..=n + 1);
        let pre = trace_prefix(&ev, k);
        if !pre.is_empty() && *pre.last().unwrap() > 0 {
            let span = ev[ev.len() - 1];
            ctx.call("curve_trace", json!({"ev": ev, "n": k, "H": (2 * span + 3).min(400)}), curve_trace_call);
        }
        // (b) conversions
        let o = gen::Opts { allow_never: false, allow_derived: false, allow_loose: false, allow_user: true, ..gen::Opts::all(tm) };
        let src = gen::arrival(&mut ctx.rng, 1, &o);
        if gen::is_empty_model(&src) {
            continue;
        }
        let sp = gen::span(&src).max(2);
        let h = (4 * sp + 6).min(300);
        let exact = is_exact_source(&src);
        // well-formed request (DESIGN.md §3.2): enough jobs that the recorded prefix ends > 0
        let burst = crate::outcome::guarded(&json!({"m": src}), ctx.watchdog_ms, eta1_call).as_u64().unwrap_or(1);
        let (how, arg) = match i % 4 {
            0 => ("until", ctx.rng.gen_range(sp..=3 * sp)),
            1 => ("njobs", burst + ctx.rng.gen_range(2..=10)),
            2 => ("acp", ctx.rng.gen_range(sp..=3 * sp)),
            _ => ("into", 0),
        };
        if how == "into" {
            let t = ctx.rng.gen_range(1..=tm);
            let s2 = if ctx.rng.gen_bool(0.4) {
                json!({"k": "periodic", "T": t})
            } else {
                json!({"k": "sporadic", "T": t, "J": ctx.rng.gen_range(0..=2 * t + 1)})
            };
            let h2 = (4 * (gen::span(&s2)) + 6).min(300);
            ctx.call("derive", json!({"src": s2, "how": "into", "arg": 0, "H": h2, "exact": true, "exact_upto": h2, "tags": []}), derive_call);
            // Curve::from(&ArrivalCurvePrefix): the source (the prefix object) is loose beyond its horizon
            let hz = ctx.rng.gen_range(sp..=3 * sp);
            if exact {
                let acp = json!({"k": "acp_from", "h": hz, "of": src});
                ctx.call("derive", json!({"src": acp, "how": "into", "arg": 0, "H": h, "exact": false, "exact_upto": hz.min(h), "root": src,
                                          "tags": ["from_acp"]}), derive_call);
            }
        } else {
            let mut tags = gen::tags(&src);
            if !exact {
                tags.push("loose_source".into());
            }
            let eu = exact_upto(&src, h).min(h);
            ctx.call("derive", json!({"src": src, "how": how, "arg": arg, "H": h, "exact": exact, "exact_upto": eu, "tags": tags}), derive_call);
        }
        // (b') coarse sources: an explicit ArrivalCurvePrefix without simultaneous arrivals whose later steps add up to
        // three jobs at once (a legitimate, if not tight, source model; e.g. steps (1,1),(11,3),(21,4))
        if i % 4 == 1 {
            let ns = ctx.rng.gen_range(2..=4usize);
            let mut steps: Vec<(u64, u64)> = vec![(1, 1)];
            for _ in 1..ns {
                let (d0, n0) = *steps.last().unwrap();
                steps.push((d0 + ctx.rng.gen_range(1..=tm), n0 + ctx.rng.gen_range(1..=3)));
            }
            let hz = steps.last().unwrap().0 + ctx.rng.gen_range(0..=tm);
            let acp = json!({"k": "acp", "h": hz, "steps": steps});
            let hh = (3 * hz + 6).min(300);
            let (how, arg) = match (i / 4) % 3 {
                0 => ("into", 0),
                1 => ("until", ctx.rng.gen_range(2..=hz)),
                _ => ("njobs", ctx.rng.gen_range(3..=steps.last().unwrap().1 + 2)),
            };
            // the table of such a prefix is the tight curve of an event process only as long as its delta-min vector is
            // super-additive (a multi-job step, or gaps that shrink too fast, end that); domination beyond is finding F11
            // delta-min vector of the prefix (entry k-2 = smallest span of k jobs); the table is realisable up to the
            // last job count whose vector is still super-additive
            let njobs = steps.last().unwrap().1;
            let dm: Vec<u64> = (2..=njobs).map(|k| steps.iter().find(|s| s.1 >= k).unwrap().0 - 1).collect();
            let mut tight_upto = hz;
            for m in 1..=dm.len() {
                if !gen::is_superadditive(&dm[..m]) {
                    tight_upto = dm[m - 1]; // the step that brings job m+1 lies at dm[m-1] + 1
                    break;
                }
            }
            ctx.call("derive", json!({"src": acp, "how": how, "arg": arg, "H": hh, "exact": false, "exact_upto": tight_upto.min(hh),
                                      "tags": ["acp", "coarse_source", "loose_source"]}), derive_call);
            ctx.call("dmin_iter", json!({"m": acp, "H": hh, "N": 40, "tags": ["acp", "coarse_source"]}), dmin_iter_call);
        }
        // (c) delta_min_iter
        let m = gen::arrival(&mut ctx.rng, 1, &o);
        if !gen::is_empty_model(&m) {
            let h3 = (4 * gen::span(&m) + 6).min(300);
            ctx.call("dmin_iter", json!({"m": m, "H": h3, "N": 40, "tags": gen::tags(&m)}), dmin_iter_call);
        }
    }
}

pub fn run_c13(ctx: &mut Ctx) {
    // all super-additive prefixes of length 2..3 with entries <= emax, every horizon / step count
    let emax = if ctx.thorough { 8 } else { 6 };
    let mut prefixes: Vec<Vec<u64>> = vec![];
    for a in 0..=emax {
        for b in a..=emax {
            if gen::is_superadditive(&[a, b]) {
                prefixes.push(vec![a, b]);
            }
            for c in b..=emax {
                if gen::is_superadditive(&[a, b, c]) {
                    prefixes.push(vec![a, b, c]);
                }
            }
        }
    }
    for p in &prefixes {
        let last = *p.last().unwrap();
        let h = 4 * last + 6;
        for hz in [last + 1, last + 2, 2 * last, 2 * last + 1, 3 * last + 2] {
            ctx.call("curve_ext", json!({"d": p, "how": "h", "arg": hz, "H": h}), curve_ext_call);
        }
        for n in [p.len() as u64 + 1, p.len() as u64 + 2, p.len() as u64 + 4] {
            ctx.call("curve_ext", json!({"d": p, "how": "n", "arg": n, "H": h}), curve_ext_call);
        }
        let nj = p.len() as u64 + 2;
        // well-formed bound: the next step cannot come earlier than the last recorded one
        for dl in [last + 1, last + 2, 2 * last + 1, 3 * last + 1] {
            ctx.call("curve_ext", json!({"d": p, "how": "b", "arg": [dl, nj], "H": h}), curve_ext_call);
        }
        // a bound that speaks about a LATER element must not be stored as the next one
        for extra in [1u64, 3] {
            ctx.call("curve_ext", json!({"d": p, "how": "b", "arg": [4 * last + 3, nj + extra], "H": h}), curve_ext_call);
        }
    }
    let nr = if ctx.thorough { 8000 } else { 700 };
    for _ in 0..nr {
        let len = ctx.rng.gen_range(1..=5);
        let zero = ctx.rng.gen_bool(0.2);
        let p = gen::dmin_prefix(&mut ctx.rng, len, 9, zero);
        let last = *p.last().unwrap();
        let h = (4 * last + 6).min(300);
        let which = ctx.rng.gen_range(0..3);
        let a1 = ctx.rng.gen_range(1..=4 * last + 2);
        let a2 = ctx.rng.gen_range(1..=p.len() as u64 + 8);
        let a3 = ctx.rng.gen_range(last + 1..=3 * last + 2);
        match which {
            0 => ctx.call("curve_ext", json!({"d": p, "how": "h", "arg": a1, "H": h}), curve_ext_call),
            1 => ctx.call("curve_ext", json!({"d": p, "how": "n", "arg": a2, "H": h}), curve_ext_call),
            _ => {
                let nj = p.len() as u64 + 2 + if a2 % 3 == 0 { a2 % 4 } else { 0 };
                ctx.call("curve_ext", json!({"d": p, "how": "b", "arg": [a3 + (nj - p.len() as u64 - 2) * last, nj], "H": h}), curve_ext_call)
            }
        }
    }
}
