//! C19: pairs / groups of calls that model the same system.

use rand::Rng;
use serde_json::{json, Value};

use crate::drivers::rta::{call_rta, gen_task};
use crate::gen;
use crate::Ctx;

fn with(inp: &Value, f: impl Fn(&mut Value)) -> Value {
    let mut v = inp.clone();
    f(&mut v);
    v
}

fn agree_call(inp: &Value) -> Value {
    let rs: Vec<Value> = inp["calls"].as_array().unwrap().iter().map(call_rta).collect();
    json!({ "rs": rs })
}

fn agree_max_call(inp: &Value) -> Value {
    let fifo = call_rta(&inp["fifo"]);
    let np: Vec<Value> = inp["np"].as_array().unwrap().iter().map(call_rta).collect();
    json!({ "fifo": fifo, "np": np })
}

pub fn run(ctx: &mut Ctx) {
    let n = if ctx.thorough { 200000 } else { 21000 };
    let (tmax, limmax) = if ctx.thorough { (30, 200) } else { (12, 70) };
    for i in 0..n {
        // half of the systems use very small periods: coinciding steps are frequent there
        let tmax = if i % 2 == 0 { tmax } else { 5 };
        let mut o = if i % 4 == 0 { gen::Opts::all(tmax) } else { gen::Opts::basic(tmax) };
        o.allow_never = false;
        o.allow_loose = false; // realisable (super-additive) delta-min prefixes only, see DESIGN.md §3.2
        let tua = gen_task(&mut ctx.rng, &o, 4, true);
        if gen::is_empty_model(&tua["a"]) {
            continue;
        }
        let k = ctx.rng.gen_range(0..=3);
        let others: Vec<Value> = (0..k).map(|_| gen_task(&mut ctx.rng, &o, 4, true)).collect();
        let b = ctx.rng.gen_range(0..=4u64);
        let lim = match ctx.rng.gen_range(0..3) {
            0 => ctx.rng.gen_range(1..=12),
            _ => ctx.rng.gen_range(1..=limmax),
        };
        let c = tua["C"].as_u64().unwrap();
        let base = json!({"lim": lim, "tua": tua, "others": others, "B": b});
        let p = |pol: &str| with(&base, |v| v["policy"] = json!(pol));
        let fam = i % 7;
        let (family, calls): (&str, Vec<Value>) = match fam {
            0 => ("lp_last1_noblocking_eq_p",
                  vec![with(&p("fp_lp"), |v| { v["tua"]["last"] = json!(1); v["B"] = json!(0) }), p("fp_p")]),
            1 => ("lp_lastC_eq_np",
                  vec![with(&p("fp_lp"), |v| v["tua"]["last"] = json!(c)), p("fp_np")]),
            2 => ("fnp_eq_lp_last1",
                  vec![p("fp_fnp"), with(&p("fp_lp"), |v| v["tua"]["last"] = json!(1))]),
            3 => ("edf_lp_unit_segments_eq_edf_p",
                  vec![with(&p("edf_lp"), |v| {
                           v["tua"]["last"] = json!(1);
                           for o in v["others"].as_array_mut().unwrap() { o["seg"] = json!(1); }
                       }), p("edf_p")]),
            4 => ("edf_lp_wcet_segments_eq_edf_np",
                  vec![with(&p("edf_lp"), |v| {
                           v["tua"]["last"] = json!(c);
                           for o in v["others"].as_array_mut().unwrap() { let cc = o["C"].clone(); o["seg"] = cc; }
                       }), p("edf_np")]),
            5 => ("edf_fnp_eq_edf_lp_last1",
                  vec![p("edf_fnp"), with(&p("edf_lp"), |v| v["tua"]["last"] = json!(1))]),
            _ => {
                // equal relative deadlines: max NP-EDF bound over all tasks = FIFO bound
                let dl = ctx.rng.gen_range(1..=2 * tmax);
                let mut all: Vec<Value> = base["others"].as_array().unwrap().clone();
                all.push(base["tua"].clone());
                for t in all.iter_mut() {
                    t["D"] = json!(dl);
                }
                let fifo = json!({"policy": "fifo", "lim": lim, "tua": {"C": 0}, "others": all, "B": 0});
                let np: Vec<Value> = (0..all.len())
                    .map(|j| {
                        let oth: Vec<Value> = (0..all.len()).filter(|x| *x != j).map(|x| all[x].clone()).collect();
                        json!({"policy": "edf_np", "lim": lim, "tua": all[j], "others": oth, "B": 0})
                    })
                    .collect();
                let inp = json!({"family": "max_np_edf_eq_fifo_equal_deadlines", "fifo": fifo, "np": np});
                ctx.call("agree_max", inp, agree_max_call);
                continue;
            }
        };
        let inp = json!({"family": family, "calls": calls});
        ctx.call("agree", inp, agree_call);
    }
}

// ---------------------------------------------------------------------------
// C19, ROS 2 part: dedicated = periodic(Q = P) = constrained(Q = D = P) for all six
// analyses; event source = FIFO on a dedicated processor

use crate::drivers::ros2::call_ros2;

fn ros_agree_call(inp: &Value) -> Value {
    let rs: Vec<Value> = inp["calls"]
        .as_array()
        .unwrap()
        .iter()
        .map(|c| if c.get("policy").is_some() { call_rta(c) } else { call_ros2(c) })
        .collect();
    json!({ "rs": rs })
}

pub fn run_ros2(ctx: &mut Ctx) {
    {
        // a fixed input that reproduces the listed finding F17 on every run: a burst of two, then two more after 2 ticks;
        // the plain Curve's own continuation is not sub-additive (eta(3) = 5 > eta(1) + eta(2)) and steps at offset L = 2
        let t = json!({"a": {"k": "curve", "d": [0, 2, 2]}, "c": {"k": "scalar", "c": 1}, "C": 1, "D": 12, "seg": 1, "last": 1});
        let own = json!({"dm": {"k": "agg", "of": [{"k": "rbf", "a": t["a"], "c": {"k": "scalar", "c": 1}}]}});
        let es = json!({"op": "ros2_es", "supply": {"k": "dedicated"}, "lim": 41, "own": own});
        let fifo = json!({"policy": "fifo", "lim": 41, "tua": {"C": 0}, "others": [t], "B": 0});
        if let Some(r) = crate::drivers::ros2::demand_rec(&own["dm"], 86, ctx.watchdog_ms) {
            ctx.call("agree", json!({"family": "event_source_eq_fifo_on_dedicated", "calls": [es, fifo], "tab": r["sn"], "lim": 41}), ros_agree_call);
        }
    }
    let n = if ctx.thorough { 40000 } else { 4000 };
    let (tmax, limmax) = if ctx.thorough { (24, 150) } else { (10, 60) };
    for i in 0..n {
        let tm = if i % 2 == 0 { tmax } else { 5 };
        let mut o = if i % 4 == 0 { gen::Opts::all(tm) } else { gen::Opts::basic(tm) };
        o.allow_never = false;
        o.allow_loose = false; // realisable (super-additive) delta-min prefixes only, see DESIGN.md §3.2
        let nt = ctx.rng.gen_range(1..=3);
        let ts: Vec<Value> = (0..nt).map(|_| gen_task(&mut ctx.rng, &o, 3, true)).collect();
        if gen::is_empty_model(&ts[0]["a"]) {
            continue;
        }
        let lim = ctx.rng.gen_range(1..=limmax);
        let rbf = |t: &Value| json!({"dm": {"k": "rbf", "a": t["a"], "c": {"k": "scalar", "c": t["C"]}}});
        let agg = |v: &[Value]| {
            let parts: Vec<Value> = v.iter().map(|t| json!({"k": "rbf", "a": t["a"], "c": {"k": "scalar", "c": t["C"]}})).collect();
            json!({"dm": {"k": "agg", "of": parts}})
        };
        let k = ctx.rng.gen_range(1..=5u64);
        let sups = [json!({"k": "dedicated"}), json!({"k": "periodic", "Q": k, "P": k}),
                    json!({"k": "constrained", "Q": k, "D": k, "P": k})];
        let b = ctx.rng.gen_range(0..=3u64);
        let wl: Vec<Value> = ts
            .iter()
            .enumerate()
            .map(|(j, t)| {
                let kd = ["timer", "unknown", "polled", "es"][(i + j) % 4];
                json!({"t": kd, "p": j as i64, "R": t["C"].as_u64().unwrap() + (i as u64 % 7), "a": t["a"],
                       "c": {"k": "scalar", "c": t["C"]}})
            })
            .collect();
        let base: Value = match i % 7 {
            0 => json!({"op": "ros2_es", "lim": lim, "own": agg(&ts)}),
            1 => json!({"op": "ros2_timer", "lim": lim, "own": rbf(&ts[0]), "hp": agg(&ts[1..]), "B": b}),
            2 => json!({"op": "ros2_pp", "lim": lim, "own": rbf(&ts[0]), "others": agg(&ts[1..])}),
            3 => {
                let c = ts[0]["C"].as_u64().unwrap();
                let pf = json!({"a": ts[0]["a"], "C": 2});
                let fl = json!({"a": ts[0]["a"], "C": c + 2});
                json!({"op": "ros2_chain", "lim": lim, "last": rbf(&ts[0]), "prefix": rbf(&pf), "full": rbf(&fl), "others": agg(&ts[1..])})
            }
            4 => json!({"op": "ros2_rr", "lim": lim, "workload": wl, "sub": [1]}),
            5 => json!({"op": "ros2_bw", "lim": lim, "workload": wl, "sub": if nt >= 2 { json!([2, 1]) } else { json!([1]) }}),
            _ => {
                // event source = FIFO analysis on a dedicated processor
                let es = json!({"op": "ros2_es", "supply": {"k": "dedicated"}, "lim": lim, "own": agg(&ts)});
                let fifo = json!({"policy": "fifo", "lim": lim, "tua": {"C": 0}, "others": ts, "B": 0});
                // the recorded request-bound table lets the specification say *where* the two analyses part ways
                let tab = match crate::drivers::ros2::demand_rec(&agg(&ts)["dm"], 2 * lim + 4, ctx.watchdog_ms) {
                    Some(r) => r["sn"].clone(),
                    None => continue,
                };
                ctx.call("agree", json!({"family": "event_source_eq_fifo_on_dedicated", "calls": [es, fifo], "tab": tab, "lim": lim}), ros_agree_call);
                continue;
            }
        };
        let calls: Vec<Value> = sups
            .iter()
            .map(|s| {
                let mut c = base.clone();
                c["supply"] = s.clone();
                c
            })
            .collect();
        ctx.call("agree", json!({"family": "dedicated_eq_full_budget_reservations", "calls": calls}), ros_agree_call);
    }
}
