//! C06 / C08 / C19: the nine dedicated-processor analyses and the fixed-point
//! search, called through the public API exactly as a user would.

use std::rc::Rc;

use rand::Rng;
use response_time_analysis::demand::{self, RequestBound};
use response_time_analysis::time::Offset;
use response_time_analysis::wcet;
use response_time_analysis::{edf, fifo, fixed_point, fixed_priority as fp};
use serde_json::{json, Value};

use crate::describe::*;
use crate::gen;
use crate::outcome::*;
use crate::Ctx;

// ---------------------------------------------------------------------------
// task descriptions: {"a": arrival, "c": cost, "C": scalar wcet (first job cost), "D", "seg", "last"}

pub fn task_rbf(t: &Value) -> RB {
    Rc::new(demand::RBF::new(build_arrival(&t["a"]), build_cost(&t["c"])))
}

fn scalar_of(t: &Value) -> wcet::Scalar {
    wcet::Scalar::new(s(u(&t["C"])))
}

/// Call one of the nine analyses. inp: {policy, lim, tua, others, B}
pub fn call_rta(inp: &Value) -> Value {
    let policy = inp["policy"].as_str().unwrap();
    let lim = d(u(&inp["lim"]));
    let tua = &inp["tua"];
    let others: Vec<Value> = inp["others"].as_array().unwrap().clone();
    let b = s(inp.get("B").and_then(|x| x.as_u64()).unwrap_or(0));
    let res = match policy {
        "fp_p" => {
            let t = task_rbf(tua);
            let o: Vec<RB> = others.iter().map(task_rbf).collect();
            fp::fully_preemptive::dedicated_uniproc_rta(&t, &o[..], lim)
        }
        "fp_np" => {
            let ab = build_arrival(&tua["a"]);
            let o: Vec<RB> = others.iter().map(task_rbf).collect();
            let t = fp::fully_nonpreemptive::TaskUnderAnalysis {
                wcet: scalar_of(tua),
                arrivals: &ab,
                blocking_bound: b,
            };
            fp::fully_nonpreemptive::dedicated_uniproc_rta(&t, &o[..], lim)
        }
        "fp_lp" => {
            let ab = build_arrival(&tua["a"]);
            let o: Vec<RB> = others.iter().map(task_rbf).collect();
            let t = fp::limited_preemptive::TaskUnderAnalysis {
                wcet: scalar_of(tua),
                arrivals: &ab,
                last_np_segment: s(u(&tua["last"])),
                blocking_bound: b,
            };
            fp::limited_preemptive::dedicated_uniproc_rta(&t, &o[..], lim)
        }
        "fp_fnp" => {
            let rbf = task_rbf(tua);
            let o: Vec<RB> = others.iter().map(task_rbf).collect();
            let t = fp::floating_nonpreemptive::TaskUnderAnalysis {
                rbf: &rbf,
                blocking_bound: b,
            };
            fp::floating_nonpreemptive::dedicated_uniproc_rta(&t, &o[..], lim)
        }
        "edf_p" => {
            let rbf = task_rbf(tua);
            let orb: Vec<RB> = others.iter().map(task_rbf).collect();
            let t = edf::fully_preemptive::Task {
                rbf: &rbf,
                deadline: d(u(&tua["D"])),
            };
            let o: Vec<edf::fully_preemptive::Task<dyn RequestBound>> = others
                .iter()
                .zip(orb.iter())
                .map(|(ot, r)| edf::fully_preemptive::Task {
                    rbf: &**r,
                    deadline: d(u(&ot["D"])),
                })
                .collect();
            edf::fully_preemptive::dedicated_uniproc_rta(&t, &o[..], lim)
        }
        "edf_np" => {
            let ab = build_arrival(&tua["a"]);
            let oab: Vec<AB> = others.iter().map(|o| build_arrival(&o["a"])).collect();
            let t = edf::fully_nonpreemptive::Task {
                wcet: scalar_of(tua),
                arrivals: &ab,
                deadline: d(u(&tua["D"])),
            };
            let o: Vec<edf::fully_nonpreemptive::Task<dyn response_time_analysis::arrival::ArrivalBound>> = others
                .iter()
                .zip(oab.iter())
                .map(|(ot, a)| edf::fully_nonpreemptive::Task {
                    wcet: scalar_of(ot),
                    arrivals: &**a,
                    deadline: d(u(&ot["D"])),
                })
                .collect();
            edf::fully_nonpreemptive::dedicated_uniproc_rta(&t, &o[..], lim)
        }
        "edf_lp" => {
            let ab = build_arrival(&tua["a"]);
            let orb: Vec<RB> = others.iter().map(task_rbf).collect();
            let t = edf::limited_preemptive::TaskUnderAnalysis {
                wcet: scalar_of(tua),
                arrivals: &ab,
                deadline: d(u(&tua["D"])),
                last_np_segment: s(u(&tua["last"])),
            };
            let o: Vec<edf::limited_preemptive::InterferingTask<dyn RequestBound>> = others
                .iter()
                .zip(orb.iter())
                .map(|(ot, r)| edf::limited_preemptive::InterferingTask {
                    rbf: &**r,
                    deadline: d(u(&ot["D"])),
                    max_np_segment: s(u(&ot["seg"])),
                })
                .collect();
            edf::limited_preemptive::dedicated_uniproc_rta(&t, &o[..], lim)
        }
        "edf_fnp" => {
            let rbf = task_rbf(tua);
            let orb: Vec<RB> = others.iter().map(task_rbf).collect();
            let t = edf::floating_nonpreemptive::TaskUnderAnalysis {
                rbf: &rbf,
                deadline: d(u(&tua["D"])),
            };
            let o: Vec<edf::floating_nonpreemptive::InterferingTask<dyn RequestBound>> = others
                .iter()
                .zip(orb.iter())
                .map(|(ot, r)| edf::floating_nonpreemptive::InterferingTask {
                    rbf: &**r,
                    deadline: d(u(&ot["D"])),
                    max_np_segment: s(u(&ot["seg"])),
                })
                .collect();
            edf::floating_nonpreemptive::dedicated_uniproc_rta(&t, &o[..], lim)
        }
        "fifo" => {
            // all tasks are in "others"; alternate the container type (C03/C16: Aggregate, Slice, Vec<Box>)
            let o: Vec<RB> = others.iter().map(task_rbf).collect();
            match inp.get("container").and_then(|c| c.as_str()).unwrap_or("agg") {
                "slice" => fifo::dedicated_uniproc_rta(&demand::Slice::of(&o[..]), lim),
                "boxed" => {
                    let bx: Vec<Box<dyn RequestBound>> =
                        o.iter().map(|r| Box::new(r.clone()) as Box<dyn RequestBound>).collect();
                    fifo::dedicated_uniproc_rta(&demand::Aggregate::new(bx), lim)
                }
                _ => fifo::dedicated_uniproc_rta(&demand::Aggregate::new(o), lim),
            }
        }
        p => panic!("harness: unknown policy {}", p),
    };
    result_json(res)
}

fn rbf_table_call(inp: &Value) -> Value {
    let rb = task_rbf(&inp["t"]);
    let h = u(&inp["H"]);
    json!((0..=h).map(|x| u64::from(rb.service_needed(d(x)))).collect::<Vec<u64>>())
}

/// add the recorded rbf tables (0..H) to a task description; None if the model panics
pub fn with_table(t: &Value, h: u64, watchdog: u64) -> Option<Value> {
    let out = guarded(&json!({"t": t, "H": h}), watchdog, rbf_table_call);
    if out.is_array() {
        let mut t2 = t.clone();
        t2["rbf"] = out;
        Some(t2)
    } else {
        None
    }
}

pub fn needs_scalar_tua(p: &str) -> bool {
    matches!(p, "fp_np" | "fp_lp" | "edf_np" | "edf_lp")
}

pub const POLICIES: [&str; 9] = [
    "fp_p", "fp_np", "fp_lp", "fp_fnp", "edf_p", "edf_np", "edf_lp", "edf_fnp", "fifo",
];

pub fn gen_task(rng: &mut rand::rngs::StdRng, o: &gen::Opts, cmax: u64, scalar: bool) -> Value {
    let a = gen::arrival(rng, 1, o);
    let c = gen::cost(rng, cmax, scalar);
    let cc = first_cost(&c);
    let last = rng.gen_range(1..=cc);
    let seg = rng.gen_range(1..=cc);
    let dl = rng.gen_range(1..=2 * o.tmax + 2);
    json!({"a": a, "c": c, "C": cc, "D": dl, "seg": seg, "last": last})
}

pub fn first_cost(c: &Value) -> u64 {
    match kind(c) {
        "scalar" => u(&c["c"]),
        "multiframe" => us(&c["cs"])[0],
        "wcurve" => us(&c["w"])[0],
        "wxcurve" | "wrap" => first_cost(&c["of"]),
        k => panic!("harness: first_cost of {}", k),
    }
}

/// naive busy-window length from recorded tables (used only to *choose* interesting limits)
fn naive_l(tabs: &[&Value], b: u64, cap: u64) -> Option<u64> {
    for x in 1..=cap {
        let tot: u64 = b + tabs
            .iter()
            .map(|t| {
                let a = t.as_array().unwrap();
                a[(x as usize).min(a.len() - 1)].as_u64().unwrap()
            })
            .sum::<u64>();
        if tot == 0 {
            return Some(0);
        }
        if x >= tot {
            return Some(x);
        }
    }
    None
}

fn emit_rta(ctx: &mut Ctx, policy: &str, tua: &Value, others: &[Value], b: u64, lim: u64, hmax: u64) -> Option<Value> {
    let h = lim + hmax + 2;
    let tua_t = with_table(tua, h, ctx.watchdog_ms)?;
    let mut os = vec![];
    for o in others {
        os.push(with_table(o, h, ctx.watchdog_ms)?);
    }
    let mut tags: Vec<String> = gen::tags(&tua["a"]);
    for o in others {
        tags.extend(gen::tags(&o["a"]));
    }
    tags.sort();
    tags.dedup();
    let mut inp = json!({"policy": policy, "lim": lim, "tua": tua_t, "others": os, "B": b, "tags": tags});
    if policy == "fifo" {
        inp["container"] = json!(["agg", "slice", "boxed"][(lim % 3) as usize]);
        inp["tua"] = json!({"rbf": [0], "C": 0});
    }
    let before = ctx.sink.n;
    ctx.call("rta", inp.clone(), call_rta);
    let _ = before;
    Some(inp)
}

/// The dedicated-processor scenarios of the repository's own unit tests (src/*/tests.rs) with the values pinned
/// there: a third, independent oracle -- the trace specification must evaluate its defining equations to the pinned
/// value (check "spec_reproduces_pinned_suite_value") and the library must agree with it as for any other input.
/// Scenarios with horizons of 10^5 and more (SchedCAT / Audsley task sets) are beyond TLC's reach and are left out.
fn suite_task(c: u64, t: u64, dl: u64, seg: u64, last: u64) -> Value {
    json!({"a": {"k": "sporadic", "T": t, "J": 0}, "c": {"k": "scalar", "c": c}, "C": c, "D": dl, "seg": seg, "last": last})
}

fn emit_suite(ctx: &mut Ctx, policy: &str, tua: &Value, others: &[Value], b: u64, lim: u64, expect: Option<u64>) {
    let h = lim + 10;
    let wd = ctx.watchdog_ms;
    let tua_t = match with_table(tua, h, wd) {
        Some(t) => t,
        None => return,
    };
    let mut os = vec![];
    for o in others {
        match with_table(o, h, wd) {
            Some(t) => os.push(t),
            None => return,
        }
    }
    let mut inp = json!({"policy": policy, "lim": lim, "tua": tua_t, "others": os, "B": b, "tags": ["suite"],
                         "expect": expect.map(|v| v as i64).unwrap_or(-1)});
    if policy == "fifo" {
        inp["container"] = json!("slice");
        inp["tua"] = json!({"rbf": [0], "C": 0});
    }
    ctx.call("rta", inp, call_rta);
}

pub fn run_suite(ctx: &mut Ctx) {
    let only = ctx.arg("--only").unwrap_or("all".into());
    if only == "ros2" {
        crate::drivers::ros2::run_suite(ctx);
        return;
    }
    // fixed_priority/tests.rs: (wcet, period) in priority order; interference = higher-priority tasks
    let fp_sets: Vec<(&str, u64, Vec<(u64, u64)>, Vec<Option<u64>>)> = vec![
        ("fp_fp_rta_basic", 100, vec![(1, 4), (1, 5), (3, 9), (3, 18)], vec![Some(1), Some(2), Some(7), Some(18)]),
        ("fp_fp_rta_lehoczky90_ex2", 1000, vec![(52, 100), (52, 140)], vec![Some(52), Some(156)]),
        ("fp_fp_rta_lehoczky90_ex2_reversed", 1000, vec![(52, 140), (52, 100)], vec![Some(52), Some(108)]),
        ("fp_fp_rta_lehoczky90_ex3", 1000, vec![(26, 70), (62, 100)], vec![Some(26), Some(118)]),
        ("fp_fp_rta_overload", 100, vec![(1, 2), (1, 3), (3, 9), (3, 18)], vec![Some(1), Some(2), None, None]),
    ];
    for (_name, lim, ps, exp) in fp_sets.iter() {
        let ts: Vec<Value> = ps.iter().map(|(c, t)| suite_task(*c, *t, *t, *c, *c)).collect();
        for i in 0..ts.len() {
            emit_suite(ctx, "fp_p", &ts[i], &ts[0..i], 0, *lim, exp[i]);
        }
    }
    // fully non-preemptive: blocking = largest lower-priority WCET - 1
    for (lim, ps, exp) in [
        (1000u64, vec![(20u64, 70u64), (20, 80), (35, 200)], vec![Some(54u64), Some(74), Some(75)]),
        (300, vec![(10, 20), (20, 50)], vec![Some(39), Some(79)]), // fp_np_rta_overload, blocking of the third task kept
    ] {
        let all: Vec<(u64, u64)> = if lim == 300 { vec![(10, 20), (20, 50), (30, 200)] } else { ps.clone() };
        let ts: Vec<Value> = all.iter().map(|(c, t)| suite_task(*c, *t, *t, *c, *c)).collect();
        for i in 0..ps.len() {
            let b = all[i + 1..].iter().map(|(c, _)| *c).max().unwrap_or(0).saturating_sub(1);
            emit_suite(ctx, "fp_np", &ts[i], &ts[0..i], b, lim, exp[i]);
        }
    }
    // limited-preemptive and floating non-preemptive FP: (4,12),(6,20),(8,40) with segments 2,3,4 / last segments 2,3,3
    let ps = [(4u64, 12u64), (6, 20), (8, 40)];
    let seg = [2u64, 3, 4];
    let last = [2u64, 3, 3];
    let ts: Vec<Value> = (0..3).map(|i| suite_task(ps[i].0, ps[i].1, ps[i].1, seg[i], last[i])).collect();
    for (i, e) in [7u64, 13, 22].iter().enumerate() {
        let b = seg[i + 1..].iter().copied().max().unwrap_or(0).saturating_sub(1);
        emit_suite(ctx, "fp_lp", &ts[i], &ts[0..i], b, 100, Some(*e));
    }
    for (i, e) in [7u64, 17, 32].iter().enumerate() {
        let b = seg[i + 1..].iter().copied().max().unwrap_or(0).saturating_sub(1);
        emit_suite(ctx, "fp_fnp", &ts[i], &ts[0..i], b, 100, Some(*e));
    }
    // fp_fnps_rta_overload: (4,12),(6,20),(8,30),(8,40), segments 2,3,3,4 -> 7, 17, 35, none
    let ps4 = [(4u64, 12u64), (6, 20), (8, 30), (8, 40)];
    let seg4 = [2u64, 3, 3, 4];
    let ts4: Vec<Value> = (0..4).map(|i| suite_task(ps4[i].0, ps4[i].1, ps4[i].1, seg4[i], 1)).collect();
    for (i, e) in [Some(7u64), Some(17), Some(35)].iter().enumerate() {
        let b = seg4[i + 1..].iter().copied().max().unwrap_or(0).saturating_sub(1);
        emit_suite(ctx, "fp_fnp", &ts4[i], &ts4[0..i], b, 300, *e);
    }
    // edf/tests.rs: every other task interferes
    let edf = |ctx: &mut Ctx, policy: &str, lim: u64, ps: &[(u64, u64)], dls: &[u64], seg: &[u64], last: &[u64], exp: &[Option<u64>]| {
        let ts: Vec<Value> = (0..ps.len()).map(|i| suite_task(ps[i].0, ps[i].1, dls[i], seg[i], last[i])).collect();
        for i in 0..ts.len() {
            let others: Vec<Value> = (0..ts.len()).filter(|j| *j != i).map(|j| ts[j].clone()).collect();
            emit_suite(ctx, policy, &ts[i], &others, 0, lim, exp[i]);
        }
    };
    let p3 = [(79u64, 120u64), (11, 34), (1, 190)];
    let c3 = [79u64, 11, 1];
    edf(ctx, "edf_np", 1000, &p3, &[100, 100, 100], &c3, &c3, &[Some(91), Some(91), Some(91)]);
    edf(ctx, "edf_np", 1000, &p3, &[50, 100, 120], &c3, &c3, &[Some(89), Some(90), Some(121)]);
    edf(ctx, "edf_np", 1000, &[(5, 20), (10, 20)], &[29, 30], &[5, 10], &[5, 10], &[Some(14), Some(15)]);
    edf(ctx, "edf_p", 1000, &p3, &[50, 100, 120], &[1, 1, 1], &[1, 1, 1], &[Some(79), Some(101), Some(121)]);
    edf(ctx, "edf_p", 1000, &[(1, 5), (100, 1000), (2, 10), (5, 20), (10, 50)], &[5, 1000, 10, 45, 50], &[1; 5], &[1; 5],
        &[Some(1), Some(694), Some(3), Some(22), Some(27)]);
    let p = [(4u64, 12u64), (6, 20), (8, 40)];
    edf(ctx, "edf_fnp", 100, &p, &[25, 30, 40], &[2, 3, 4], &[1, 1, 1], &[Some(8), Some(13), Some(22)]);
    edf(ctx, "edf_lp", 1000, &p, &[24, 35, 40], &[2, 3, 4], &[2, 3, 4], &[Some(7), Some(17), Some(22)]);
    // fifo/tests.rs
    let f1: Vec<Value> = p3.iter().map(|(c, t)| suite_task(*c, *t, *t, *c, *c)).collect();
    emit_suite(ctx, "fifo", &f1[0], &f1, 0, 1000, Some(91));
    let f2: Vec<Value> = [(2u64, 4u64), (2, 8), (4, 12)].iter().map(|(c, t)| suite_task(*c, *t, *t, *c, *c)).collect();
    emit_suite(ctx, "fifo", &f2[0], &f2, 0, 1000, None);
    if only == "all" {
        crate::drivers::ros2::run_suite(ctx);
    }
}

/// Scaled systems (MCAnalyses.tla, invariant Homogeneous): a small sporadic task set (validated equationally by TLC
/// like every other rta event) and the same set with every period, jitter, cost, deadline, the blocking bound and the
/// limit multiplied by an odd K between 2^40 and 2^55.  For the homogeneous analyses the bound of the large system must be K times
/// the bound of the small one (decided by Apalache over unbounded integers).
fn scale_call(inp: &Value) -> Value {
    json!({"small": call_rta(&inp["small"]), "big": call_rta(&inp["big"])})
}

pub fn run_scale(ctx: &mut Ctx) {
    let n = if ctx.thorough { 1500 } else { 160 };
    let policies = ["fp_p", "fp_np", "fp_lp", "fp_fnp", "edf_p", "fifo"];
    for i in 0..n {
        let policy = policies[i % policies.len()];
        let nt = ctx.rng.gen_range(1..=2usize);
        // periods grow with the number of tasks so that most systems are not overloaded (a quarter may be)
        let tmin = if i % 4 == 0 { 2 } else { 3 * (nt as u64 + 1) };
        let mk = |rng: &mut rand::rngs::StdRng| {
            let t = rng.gen_range(tmin..=tmin + 8);
            let j = if rng.gen_bool(0.5) { 0 } else { rng.gen_range(0..=t + 2) };
            let c = rng.gen_range(1..=3u64);
            (t, j, c, rng.gen_range(1..=12u64))
        };
        let ps: Vec<(u64, u64, u64, u64)> = (0..=nt).map(|_| mk(&mut ctx.rng)).collect();
        let b = if policy == "fp_p" || policy == "edf_p" || policy == "fifo" { 0 } else { ctx.rng.gen_range(0..=3u64) };
        let lim = ctx.rng.gen_range(12..=40u64);
        // an odd factor: K * r is then not exactly representable as an f64 once it exceeds 2^53
        let k = (1u64 << ctx.rng.gen_range(40..=54)) + 2 * ctx.rng.gen_range(0..500u64) + 1;
        let last = ctx.rng.gen_range(1..=ps[0].2);
        let task = |p: &(u64, u64, u64, u64), f: u64| {
            json!({"a": {"k": "sporadic", "T": p.0 * f, "J": p.1 * f}, "c": {"k": "scalar", "c": p.2 * f}, "C": p.2 * f,
                   "D": p.3 * f, "seg": p.2 * f, "last": last.min(p.2) * f})
        };
        let build = |f: u64| {
            let tua = task(&ps[0], f);
            let others: Vec<Value> = ps[1..].iter().map(|p| task(p, f)).collect();
            let mut inp = json!({"policy": policy, "lim": lim * f, "tua": tua, "others": others, "B": b * f});
            if policy == "fifo" {
                let mut all = others.clone();
                all.push(inp["tua"].clone());
                inp["others"] = json!(all);
                inp["tua"] = json!({"C": 0});
                inp["container"] = json!("agg");
            }
            inp
        };
        // the small system as an ordinary rta event (with its recorded tables) ...
        let small = build(1);
        let tua = small["tua"].clone();
        let others: Vec<Value> = small["others"].as_array().unwrap().clone();
        if policy == "fifo" {
            emit_rta(ctx, policy, &others[others.len() - 1], &others, 0, lim, 8);
        } else {
            emit_rta(ctx, policy, &tua, &others, b, lim, 8);
        }
        // ... and the pair (small, K times larger)
        ctx.call("scale", json!({"policy": policy, "K": k, "small": small, "big": build(k)}), scale_call);
    }
}

pub fn run_rta(ctx: &mut Ctx) {
    let only: Option<Vec<String>> = ctx.arg("--policies").map(|p| p.split(',').map(|x| x.to_string()).collect());
    let wanted = |p: &str| only.as_ref().map(|o| o.iter().any(|x| x == p)).unwrap_or(true);
    let scale: usize = ctx.arg("--scale").and_then(|x| x.parse().ok()).unwrap_or(1);
    // enumerated core: 2 tasks, small parameters, every policy, several limits
    let tm = if ctx.thorough { 5 } else { 4 };
    let mut tasks = vec![];
    for t in 1..=tm {
        for c in 1..=2u64 {
            for j in [0, 1, t + 1] {
                tasks.push(json!({"a": {"k": "sporadic", "T": t, "J": j}, "c": {"k": "scalar", "c": c}, "C": c,
                                  "D": (t + c) % 5 + 1, "seg": c, "last": 1 + (t + j) % c}));
            }
        }
    }
    let lims: &[u64] = if ctx.thorough { &[2, 3, 5, 8, 12, 20, 40] } else { &[3, 7, 14, 30] };
    let mut idx = 0u64;
    for a in &tasks {
        for b in &tasks {
            for (pi, p) in POLICIES.iter().enumerate() {
                idx += 1;
                if !wanted(p) {
                    continue;
                }
                // every (pair, policy) gets two of the limits; all limits are covered across the box
                for k in 0..2 {
                    let lim = lims[((idx + k * 3 + pi as u64) % lims.len() as u64) as usize];
                    let blocking = (idx + k) % 3;
                    if *p == "fifo" {
                        emit_rta(ctx, p, a, &[a.clone(), b.clone()], 0, lim, 8);
                    } else {
                        emit_rta(ctx, p, a, &[b.clone()], blocking, lim, 8);
                    }
                }
            }
        }
    }
    // a fixed input that reproduces the listed finding F9 on every run (request bound over an ArrivalCurvePrefix)
    for p in ["fp_p", "edf_p", "fifo"] {
        if wanted(p) {
            let t = json!({"a": {"k": "acp", "h": 10, "steps": [[1, 1], [5, 2]]}, "c": {"k": "scalar", "c": 1}, "C": 1,
                           "D": 6, "seg": 1, "last": 1});
            emit_rta(ctx, p, &t, &[t.clone()], 0, 20, 8);
        }
    }
    // enumerated EDF box with an earlier-deadline, dense interferer: the task under analysis stays pending for longer
    // than the deadline difference, so the maximum sits at a deadline-shifted step offset A > 0 of the interferer
    for p in ["edf_p", "edf_np", "edf_lp", "edf_fnp"] {
        if !wanted(p) {
            continue;
        }
        for t_o in [3u64, 5, 8] {
            for c_o in [1u64, t_o / 2, t_o - 1] {
                for d_o in [1u64, 3, t_o] {
                    for c_t in [2u64, 5] {
                        for dd in [1u64, 2, 4, 7] {
                            for (li, last) in [1u64, c_t].iter().enumerate() {
                                let j_o = if (t_o + c_o + dd) % 3 == 0 { 1 } else { 0 };
                                let ot = json!({"a": {"k": "sporadic", "T": t_o, "J": j_o}, "c": {"k": "scalar", "c": c_o},
                                                "C": c_o, "D": d_o, "seg": 1 + (c_o + dd) % c_o.max(1), "last": 1});
                                let tua = json!({"a": {"k": "sporadic", "T": 50, "J": 0}, "c": {"k": "scalar", "c": c_t},
                                                 "C": c_t, "D": d_o + dd, "seg": *last, "last": *last});
                                let b = if p == "edf_p" { 0 } else { (li as u64 + dd) % 3 };
                                emit_rta(ctx, p, &tua, &[ot], b, 60, 8);
                            }
                        }
                    }
                }
            }
        }
    }
    // seeded random: 1-4 tasks, jitter, bursts, arbitrary cost models where the API allows
    let n = if ctx.thorough { 60000 } else { 6000 };
    let (tmax, limmax) = if ctx.thorough { (30, 150) } else { (12, 60) };
    for i in 0..n * scale {
        let policy = POLICIES[ctx.rng.gen_range(0..9)];
        if !wanted(policy) {
            continue;
        }
        let mut o = if i % 4 == 0 { gen::Opts::all(tmax) } else { gen::Opts::basic(tmax) };
        o.allow_zero = i % 8 == 0;
        let scalar_all = matches!(policy, "edf_np");
        let tua = gen_task(&mut ctx.rng, &o, 4, needs_scalar_tua(policy) || scalar_all);
        if gen::is_empty_model(&tua["a"]) {
            // W (DESIGN.md §3.2): the task under analysis releases at least one job; the
            // degenerate case is exercised by the totality driver (C20) only
            continue;
        }
        let k = ctx.rng.gen_range(0..=3);
        let mut others: Vec<Value> = (0..k).map(|_| gen_task(&mut ctx.rng, &o, 4, scalar_all)).collect();
        let mut tua = tua;
        if policy.starts_with("edf") {
            match ctx.rng.gen_range(0..3) {
                0 => {
                    // later-deadline interferers: the blocking term of the EDF analyses matters
                    let dt = u(&tua["D"]);
                    for ot in others.iter_mut() {
                        ot["D"] = json!(dt + ctx.rng.gen_range(1..=2 * tmax));
                    }
                }
                1 => {
                    // earlier-deadline interferers: their step offsets are shifted towards zero
                    let dmax = others.iter().map(|ot| u(&ot["D"])).max().unwrap_or(1);
                    tua["D"] = json!(dmax + ctx.rng.gen_range(1..=2 * tmax));
                }
                _ => {}
            }
        }
        let b = if ctx.rng.gen_bool(0.4) { 0 } else { ctx.rng.gen_range(0..=4) };
        // a first call with a comfortable limit; then limits around the busy-window length
        let big = limmax;
        let all: Vec<Value> = if policy == "fifo" {
            let mut v = others.clone();
            v.push(tua.clone());
            v
        } else {
            others.clone()
        };
        let rec = match emit_rta(ctx, policy, &tua, &all, b, big, 2 * tmax + 2) {
            Some(r) => r,
            None => continue,
        };
        let mut tabs: Vec<&Value> = rec["others"].as_array().unwrap().iter().map(|t| &t["rbf"]).collect();
        if policy != "fifo" {
            tabs.push(&rec["tua"]["rbf"]);
        }
        let bb = if policy.starts_with("fp_") && policy != "fp_p" { b } else { 0 };
        if let Some(l) = naive_l(&tabs, bb, big) {
            let cands = [l, l.saturating_sub(1), l + 1, ctx.rng.gen_range(1..=l.max(2)), ctx.rng.gen_range(1..=big)];
            let pick = cands[ctx.rng.gen_range(0..cands.len())].max(1);
            emit_rta(ctx, policy, &tua, &all, b, pick, 2 * tmax + 2);
            let pick2 = cands[ctx.rng.gen_range(0..cands.len())].max(1);
            if pick2 != pick {
                emit_rta(ctx, policy, &tua, &all, b, pick2, 2 * tmax + 2);
            }
        }
    }
}

// ---------------------------------------------------------------------------
// C08: fixed-point search on table workloads

fn sbf_in_window(sup: &SB, off: u64, w1: u64) -> bool {
    off == 0 || u64::from(sup.provided_service(d(off - 1))) < w1
}

fn call_search(inp: &Value) -> Value {
    let sup = build_supply(&inp["supply"]);
    let w = us(&inp["w"]);
    let wl = move |x: response_time_analysis::time::Duration| {
        let i = (u64::from(x) as usize).clamp(1, w.len());
        s(w[i - 1])
    };
    let lim = d(u(&inp["lim"]));
    let off = u(&inp["off"]);
    let res = if inp["via"].as_str() == Some("search") {
        fixed_point::search(&sup, lim, wl)
    } else {
        fixed_point::search_with_offset(&sup, Offset::from(off), lim, &wl)
    };
    result_json(res)
}

/// search_with_offset with a workload closure that logs every interval length it is asked about: the recorded
/// sequence is the iteration the implementation actually ran (MCFixedPoint's machine, observed without a hook)
fn call_search_trace(inp: &Value) -> Value {
    let sup = build_supply(&inp["supply"]);
    let w = us(&inp["w"]);
    let asked = std::cell::RefCell::new(Vec::<u64>::new());
    let wl = |x: response_time_analysis::time::Duration| {
        asked.borrow_mut().push(u64::from(x));
        let i = (u64::from(x) as usize).clamp(1, w.len());
        s(w[i - 1])
    };
    let lim = d(u(&inp["lim"]));
    let off = u(&inp["off"]);
    let res = fixed_point::search_with_offset(&sup, Offset::from(off), lim, &wl);
    let a = asked.borrow().clone();
    json!({"res": result_json(res), "asked": a})
}

fn call_maxrt(inp: &Value) -> Value {
    let rs: Vec<fixed_point::SearchResult> = inp["rs"]
        .as_array()
        .unwrap()
        .iter()
        .map(|r| {
            if let Some(v) = r.get("ok") {
                Ok(d(u(v)))
            } else {
                Err(fixed_point::SearchFailure::DivergenceLimitExceeded {
                    offset: Offset::from(u(&r["offset"])),
                    limit: d(u(&r["limit"])),
                })
            }
        })
        .collect();
    result_json(fixed_point::max_response_time(rs.into_iter()))
}

fn monotone_tables(len: usize, maxv: u64, out: &mut Vec<Vec<u64>>, cur: &mut Vec<u64>) {
    if cur.len() == len {
        out.push(cur.clone());
        return;
    }
    let lo = cur.last().copied().unwrap_or(0);
    for v in lo..=maxv {
        cur.push(v);
        monotone_tables(len, maxv, out, cur);
        cur.pop();
    }
}

pub fn supplies_small(pmax: u64) -> Vec<Value> {
    let mut v = vec![json!({"k": "dedicated"})];
    for p in 1..=pmax {
        for q in 1..=p {
            v.push(json!({"k": "periodic", "Q": q, "P": p}));
            for dl in q..p {
                v.push(json!({"k": "constrained", "Q": q, "D": dl, "P": p}));
            }
        }
    }
    v.push(json!({"k": "stair", "pattern": [0, 1, 1, 0, 1]}));
    v.push(json!({"k": "stair", "pattern": [0, 0, 1]}));
    v
}

pub fn run_search(ctx: &mut Ctx) {
    // the R3 box replayed on the implementation: all monotone w: 1..len -> 0..maxv
    let (len, maxv, pmax) = if ctx.thorough { (5, 5, 4) } else { (4, 4, 3) };
    let mut tabs = vec![];
    monotone_tables(len, maxv, &mut tabs, &mut vec![]);
    let sups = supplies_small(pmax);
    for (ti, w) in tabs.iter().enumerate() {
        for (si, sd) in sups.iter().enumerate() {
            let sup = build_supply(sd);
            for dflt in [false, true] {
                if dflt && (ti + si) % 3 != 0 {
                    continue;
                }
                let mut sd2 = sd.clone();
                if dflt {
                    sd2["default_inverse"] = json!(true);
                }
                for off in 0..=4u64 {
                    if !sbf_in_window(&sup, off, w[0]) {
                        continue;
                    }
                    for lim in [1u64, 2, 3, 5, 8, 13] {
                        if (ti as u64 + si as u64 + off + lim) % 4 != 0 && !ctx.thorough {
                            continue;
                        }
                        let via = if off == 0 && lim % 2 == 1 { "search" } else { "offset" };
                        let inp = json!({"supply": sd2, "w": w, "off": off, "lim": lim, "via": via});
                        ctx.call("search", inp.clone(), call_search);
                        if via == "offset" && !dflt {
                            ctx.call("search_trace", inp, call_search_trace);
                        }
                    }
                }
            }
        }
    }
    // random larger tables
    let n = if ctx.thorough { 60000 } else { 5000 };
    for _ in 0..n {
        let l = ctx.rng.gen_range(1..=60);
        let mut w = vec![];
        let mut cur = ctx.rng.gen_range(0..=4u64);
        for _ in 0..l {
            w.push(cur);
            if ctx.rng.gen_bool(0.3) {
                cur += ctx.rng.gen_range(1..=5);
            }
        }
        let p = ctx.rng.gen_range(1..=12u64);
        let q = ctx.rng.gen_range(1..=p);
        let dl = ctx.rng.gen_range(q..=p);
        let mut sd = match ctx.rng.gen_range(0..5) {
            0 => json!({"k": "dedicated"}),
            1 => json!({"k": "periodic", "Q": q, "P": p}),
            2 | 3 => json!({"k": "constrained", "Q": q, "D": dl, "P": p}),
            _ => {
                let n = ctx.rng.gen_range(2..=6);
                let mut pat: Vec<u64> = (0..n).map(|_| ctx.rng.gen_range(0..=1)).collect();
                pat[n - 1] = 1;
                json!({"k": "stair", "pattern": pat})
            }
        };
        let sup = build_supply(&sd);
        if ctx.rng.gen_bool(0.3) {
            sd["default_inverse"] = json!(true);
        }
        let off = if ctx.rng.gen_bool(0.4) { 0 } else { ctx.rng.gen_range(0..=20) };
        if !sbf_in_window(&sup, off, w[0]) {
            continue;
        }
        let lim = ctx.rng.gen_range(1..=80);
        let via = if off == 0 && ctx.rng.gen_bool(0.5) { "search" } else { "offset" };
        let inp = json!({"supply": sd, "w": w, "off": off, "lim": lim, "via": via});
        ctx.call("search", inp.clone(), call_search);
        if via == "offset" {
            ctx.call("search_trace", inp, call_search_trace);
        }
    }
    // max_response_time: all short sequences over a small alphabet + random
    let alpha = [json!({"ok": 0}), json!({"ok": 3}), json!({"ok": 7}),
                 json!({"err": "diverge", "offset": 1, "limit": 9}), json!({"err": "diverge", "offset": 4, "limit": 9})];
    let mut seqs: Vec<Vec<Value>> = vec![vec![]];
    let mut frontier: Vec<Vec<Value>> = vec![vec![]];
    for _ in 0..4 {
        let mut next = vec![];
        for sq in &frontier {
            for a in &alpha {
                let mut s2 = sq.clone();
                s2.push(a.clone());
                next.push(s2);
            }
        }
        seqs.extend(next.iter().cloned());
        frontier = next;
    }
    for sq in seqs {
        ctx.call("maxrt", json!({"rs": sq}), call_maxrt);
    }
}
