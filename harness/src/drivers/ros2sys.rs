//! C04 / C05 (R1): executor workloads with the bounds claimed by the real
//! ROS 2 analyses, written as a batch for spec/Ros2Exec.tla.

use rand::Rng;
use serde_json::{json, Value};

use crate::describe::*;
use crate::drivers::ros2::{call_ros2, gen_supply};
use crate::outcome::*;
use crate::Ctx;

fn eta_at(inp: &Value) -> Value {
    let ab = build_arrival(&inp["a"]);
    json!(ab.number_arrivals(d(u(&inp["delta"]))) as u64)
}

fn arr_of(a: &Value) -> Value {
    match kind(a) {
        "periodic" => json!({"k": "sporadic", "T": a["T"], "J": 0}),
        "sporadic" => json!({"k": "sporadic", "T": a["T"], "J": a["J"]}),
        "curve" => json!({"k": "dmin", "d": a["d"]}),
        "xcurve" => json!({"k": "dmin", "d": a["of"]["d"]}),
        k => panic!("harness: no arrival automaton for {}", k),
    }
}

fn gen_arr(rng: &mut rand::rngs::StdRng, tmin: u64, tmax: u64) -> Value {
    let t = rng.gen_range(tmin..=tmax.max(tmin));
    match rng.gen_range(0..10) {
        0..=2 => json!({"k": "periodic", "T": t}),
        3..=6 => json!({"k": "sporadic", "T": t, "J": rng.gen_range(0..=2)}),
        7 => json!({"k": "sporadic", "T": t, "J": rng.gen_range(t - 1..=t + 1)}), // bursts of two
        _ => {
            let len = rng.gen_range(2..=3);
            json!({"k": "xcurve", "of": {"k": "curve", "d": crate::gen::dmin_prefix(rng, len, t, false)}})
        }
    }
}

fn rbf(a: &Value, c: u64) -> Value {
    json!({"k": "rbf", "a": a, "c": {"k": "scalar", "c": c}})
}

/// request bound of a callback with an optional cumulative-cost curve (w empty = scalar c)
fn rbf_w(a: &Value, c: u64, w: &[u64]) -> Value {
    if w.is_empty() {
        rbf(a, c)
    } else if c % 2 == 0 {
        json!({"k": "rbf", "a": a, "c": {"k": "wcurve", "w": w}})
    } else {
        json!({"k": "rbf", "a": a, "c": {"k": "wxcurve", "of": {"k": "wcurve", "w": w}}})
    }
}

fn dm(v: Value) -> Value {
    json!({ "dm": v })
}

fn cap_of(ctx: &Ctx, a: &Value, r: i64) -> u64 {
    if r < 0 {
        return 1;
    }
    guarded(&json!({"a": a, "delta": r}), ctx.watchdog_ms, eta_at).as_u64().unwrap_or(0) + 1
}

/// crude estimate of the number of reachable states of one workload (arrival counters x backlog ages x supply)
pub fn state_estimate(cbs: &[Value], supply: &Value) -> f64 {
    let mut est = 1.0f64;
    for c in cbs {
        let a = &c["arr"];
        est *= match kind(a) {
            "sporadic" => (u(&a["T"]) + u(&a["J"]) + 1) as f64,
            "dmin" => {
                let dm = us(&a["d"]);
                (dm[dm.len() - 1] as f64 + 1.0).powf(1.0 + 0.5 * (dm.len() as f64 - 1.0))
            }
            _ => 1.0,
        };
        let r = c["R"].as_i64().unwrap().max(1) as f64;
        est *= (r + 1.0).powf((u(&c["cap"]) - 1) as f64 * 0.7);
        if let Some(w) = c.get("w").and_then(|w| w.as_array()) {
            est *= (u(&c["C"]) as f64).powf(w.len().saturating_sub(1) as f64);
        }
    }
    if kind(supply) != "dedicated" {
        est *= (u(&supply["P"]) * u(&supply["Q"])) as f64;
    }
    est
}

fn fits(ctx: &Ctx, cbs: &[Value], supply: &Value) -> bool {
    let (rmax, backlog, budget) = if ctx.thorough { (40, 7, 4.0e7) } else { (22, 5, 1.5e6) };
    let total: u64 = cbs.iter().map(|c| u(&c["cap"]) - 1).sum();
    cbs.iter().all(|c| c["R"].as_i64().unwrap() <= rmax) && total <= backlog && state_estimate(cbs, supply) <= budget
}

/// ECRTS'19 workloads (C04)
fn ecrts19(ctx: &mut Ctx, id: u64, lim: u64, tmax: u64, cmax: u64, pmax: u64, chain_len_max: usize) {
    let supply = gen_supply(&mut ctx.rng, pmax);
    let maxcb = if ctx.thorough { 5 } else { 4 };
    let chain_len = if ctx.rng.gen_bool(0.5) { ctx.rng.gen_range(2..=chain_len_max) } else { 0 };
    let nt = ctx.rng.gen_range(0..=2usize).min(maxcb - chain_len - 1);
    let np = ctx.rng.gen_range(1..=2usize).min(maxcb - chain_len - nt).max(if chain_len == 0 { 1 } else { 0 });
    // callbacks: timers first (priority = index), then polled singles, then the chain members
    struct Cb {
        t: &'static str,
        a: Option<Value>,
        c: u64,
        succ: usize,
        chain: bool,
        w: Vec<u64>,
    }
    // a third of the unchained callbacks get a cumulative-cost curve (any n consecutive instances cost <= w[n])
    let gen_w = |rng: &mut rand::rngs::StdRng, cmax: u64| -> Vec<u64> {
        if rng.gen_bool(0.33) {
            let mut w = crate::gen::cost_prefix(rng, cmax);
            w.truncate(3);
            w
        } else {
            vec![]
        }
    };
    let mut cbs: Vec<Cb> = vec![];
    // periods scale with the number of callbacks so that most workloads are not overloaded
    let ncb = (nt + np + chain_len) as u64;
    let tmin = (ncb * cmax).saturating_sub(1).max(2);
    let tmax = tmin + tmax.min(3);
    for _ in 0..nt {
        let w = gen_w(&mut ctx.rng, cmax);
        let c = if w.is_empty() { ctx.rng.gen_range(1..=cmax) } else { w[0] };
        cbs.push(Cb { t: "timer", a: Some(gen_arr(&mut ctx.rng, tmin, tmax)), c, succ: 0, chain: false, w });
    }
    for _ in 0..np {
        let w = gen_w(&mut ctx.rng, cmax);
        let c = if w.is_empty() { ctx.rng.gen_range(1..=cmax) } else { w[0] };
        cbs.push(Cb { t: "polled", a: Some(gen_arr(&mut ctx.rng, tmin, tmax)), c, succ: 0, chain: false, w });
    }
    let chain_start = cbs.len();
    for k in 0..chain_len {
        let a = if k == 0 { Some(gen_arr(&mut ctx.rng, tmin, tmax + 2)) } else { None };
        let succ = if k + 1 < chain_len { chain_start + k + 2 } else { 0 };
        cbs.push(Cb { t: "polled", a, c: ctx.rng.gen_range(1..=cmax), succ, chain: true, w: vec![] });
    }
    // shuffle polled priorities (index order among polled = priority): chain members may be anywhere
    let n = cbs.len();
    let mut prio: Vec<i64> = (0..n as i64).collect();
    for k in (nt + 1..n).rev() {
        let j = ctx.rng.gen_range(nt..=k);
        prio.swap(k, j);
    }
    let chain_a = if chain_len > 0 { cbs[chain_start].a.clone() } else { None };
    let chain_total: u64 = cbs[chain_start..].iter().map(|c| c.c).sum();
    // chain-level / callback-level RBFs of "everything except X"
    let unit_rbf = |i: usize| rbf_w(cbs[i].a.as_ref().unwrap(), cbs[i].c, &cbs[i].w);
    let mut claims: Vec<i64> = vec![-1; n];
    let mut calls = vec![];
    let h = 2 * lim + 4;
    let wd = ctx.watchdog_ms;
    let rec = |v: &Value| crate::drivers::ros2::demand_rec(v, h, wd);
    for i in 0..n {
        if cbs[i].chain {
            continue;
        }
        let mut others: Vec<Value> = (0..n).filter(|j| *j != i && !cbs[*j].chain).map(unit_rbf).collect();
        if chain_len > 0 {
            others.push(rbf(chain_a.as_ref().unwrap(), chain_total));
        }
        let inp = if cbs[i].t == "timer" {
            let hp: Vec<Value> = (0..nt).filter(|j| prio[*j] < prio[i]).map(unit_rbf).collect();
            let lower_max = (0..n)
                .filter(|j| cbs[*j].t == "polled" || prio[*j] > prio[i])
                .map(|j| cbs[j].c)
                .max()
                .unwrap_or(0);
            match (rec(&unit_rbf(i)), rec(&json!({"k": "agg", "of": hp}))) {
                (Some(own), Some(hp)) => json!({"op": "ros2_timer", "supply": supply, "lim": lim, "own": own, "hp": hp,
                                                "B": lower_max.saturating_sub(1)}),
                _ => return,
            }
        } else {
            match (rec(&unit_rbf(i)), rec(&json!({"k": "agg", "of": others}))) {
                (Some(own), Some(ot)) => json!({"op": "ros2_pp", "supply": supply, "lim": lim, "own": own, "others": ot}),
                _ => return,
            }
        };
        let out = guarded(&inp, wd, call_ros2);
        claims[i] = out.get("ok").and_then(|x| x.as_i64()).unwrap_or(-1);
        calls.push(json!({"op": inp["op"], "B": inp.get("B"), "out": out}));
    }
    if chain_len > 0 {
        let a = chain_a.as_ref().unwrap();
        let clast = cbs[n - 1].c;
        let others: Vec<Value> = (0..n).filter(|j| !cbs[*j].chain).map(unit_rbf).collect();
        let _ = dm;
        if let (Some(l), Some(p), Some(f), Some(ot)) = (
            rec(&rbf(a, clast)),
            rec(&rbf(a, chain_total - clast)),
            rec(&rbf(a, chain_total)),
            rec(&json!({"k": "agg", "of": others})),
        ) {
            let inp = json!({"op": "ros2_chain", "supply": supply, "lim": lim, "last": l, "prefix": p, "full": f, "others": ot});
            let out = guarded(&inp, wd, call_ros2);
            let r = out.get("ok").and_then(|x| x.as_i64()).unwrap_or(-1);
            for c in claims.iter_mut().skip(chain_start) {
                *c = r;
            }
            calls.push(json!({"op": "ros2_chain", "out": out}));
        }
    }
    if claims.iter().any(|r| *r < 0) {
        return; // quick and thorough explore workloads in which every callback has a claim
    }
    let mut out_cbs = vec![];
    for i in 0..n {
        let src_a = if cbs[i].chain { chain_a.as_ref().unwrap() } else { cbs[i].a.as_ref().unwrap() };
        let cap = cap_of(ctx, src_a, claims[i]);
        let arr = if cbs[i].chain && i != chain_start { json!({"k": "chain"}) } else { arr_of(src_a) };
        out_cbs.push(json!({"t": cbs[i].t, "prio": prio[i], "arr": arr, "succ": cbs[i].succ, "C": cbs[i].c,
                            "R": claims[i], "cap": cap, "w": cbs[i].w}));
    }
    if !fits(ctx, &out_cbs, &supply) {
        return;
    }
    let nontrivial = (0..n).any(|i| claims[i] > cbs[i].c as i64);
    ctx.sink.raw(&json!({"id": id, "family": "ecrts19", "supply": supply, "cbs": out_cbs, "lim": lim, "calls": calls,
                         "nontrivial": nontrivial, "chain": chain_len}));
}

/// Heavily loaded timer-only workloads (C04): several instances of the timer under analysis share one busy window,
/// so offsets > 0 of `rta_timer` are exercised, and the analysed timer's later instances are cheaper than its first
/// (cumulative-cost curve w), so the window in which higher-priority timers interfere depends on which instance is meant.
fn busy_timers(ctx: &mut Ctx, id: u64, lim: u64, supply: Value, timers: &[(u64, u64, Vec<u64>)]) {
    // timers in priority order: (period, wcet, w)
    let n = timers.len();
    let wd = ctx.watchdog_ms;
    let h = 2 * lim + 4;
    let arr = |i: usize| json!({"k": "periodic", "T": timers[i].0});
    let unit = |i: usize| rbf_w(&arr(i), timers[i].1, &timers[i].2);
    let mut claims = vec![];
    let mut calls = vec![];
    for i in 0..n {
        let hp: Vec<Value> = (0..i).map(unit).collect();
        let lower_max = (i + 1..n).map(|j| timers[j].1).max().unwrap_or(0);
        let (own, hpr) = match (crate::drivers::ros2::demand_rec(&unit(i), h, wd),
                                crate::drivers::ros2::demand_rec(&json!({"k": "agg", "of": hp}), h, wd)) {
            (Some(a), Some(b)) => (a, b),
            _ => return,
        };
        let inp = json!({"op": "ros2_timer", "supply": supply, "lim": lim, "own": own, "hp": hpr, "B": lower_max.saturating_sub(1)});
        let out = guarded(&inp, wd, call_ros2);
        let r = out.get("ok").and_then(|x| x.as_i64()).unwrap_or(-1);
        if r < 0 {
            eprintln!("busy_timers {}: timer {} has no bound: {}", id, i, out);
            return;
        }
        claims.push(r);
        calls.push(json!({"op": "ros2_timer", "B": inp["B"], "out": out}));
    }
    let mut cbs = vec![];
    for i in 0..n {
        let cap = cap_of(ctx, &arr(i), claims[i]);
        cbs.push(json!({"t": "timer", "prio": i as i64, "arr": arr_of(&arr(i)), "succ": 0, "C": timers[i].1, "R": claims[i],
                        "cap": cap, "w": timers[i].2}));
    }
    if state_estimate(&cbs, &supply) > 4.0e7 {
        eprintln!("busy_timers {}: estimate {}", id, state_estimate(&cbs, &supply));
        return;
    }
    ctx.sink.raw(&json!({"id": id, "family": "ecrts19", "variant": "busy_timers", "supply": supply, "cbs": cbs, "lim": lim,
                         "calls": calls, "nontrivial": true, "chain": 0}));
}

fn busy_timer_presets(ctx: &mut Ctx, first_id: u64, lim: u64) {
    let presets: Vec<(Value, Vec<(u64, u64, Vec<u64>)>)> = vec![
        (json!({"k": "periodic", "Q": 3, "P": 4}), vec![(9, 4, vec![]), (13, 5, vec![5, 7])]),
        (json!({"k": "dedicated"}), vec![(5, 3, vec![]), (9, 4, vec![4, 5])]),
        (json!({"k": "constrained", "Q": 3, "D": 3, "P": 4}), vec![(6, 2, vec![]), (10, 3, vec![3, 4])]),
        (json!({"k": "periodic", "Q": 2, "P": 3}), vec![(8, 3, vec![]), (12, 4, vec![4, 6])]),
        (json!({"k": "dedicated"}), vec![(7, 2, vec![]), (9, 2, vec![]), (14, 4, vec![4, 5])]),
        (json!({"k": "periodic", "Q": 3, "P": 4}), vec![(8, 3, vec![3, 4]), (12, 4, vec![])]),
    ];
    let k = if ctx.thorough { presets.len() } else { 4 };
    for (i, (sup, ts)) in presets.into_iter().take(k).enumerate() {
        busy_timers(ctx, first_id + i as u64, lim, sup, &ts);
    }
}

/// RTSS'21 workloads (C05): self-consistent bound vectors of the rr / bw analyses.
/// Known priorities are pairwise distinct (value = 4 * random + index): a priority *order* has no ties; with equal values the
/// analyses treat neither callback as the higher one, which is optimistic for whichever the executor happens to serve second
/// (observed with seed 2 of the thorough tier, see DESIGN.md 9.2).
fn rtss21(ctx: &mut Ctx, id: u64, lim: u64, _tmax: u64, cmax: u64, pmax: u64) {
    let supply = gen_supply(&mut ctx.rng, pmax);
    let n = ctx.rng.gen_range(2..=3usize);
    let mut wl = vec![];
    for j in 0..n {
        let t = ["timer", "unknown", "polled", "polled", "unknown"][ctx.rng.gen_range(0..5)];
        let tmin = (n as u64 * cmax).saturating_sub(1).max(2);
        let a = gen_arr(&mut ctx.rng, tmin, tmin + 3);
        let c = ctx.rng.gen_range(1..=cmax);
        wl.push(json!({"t": t, "p": ctx.rng.gen_range(0..=2) * 4 + j as i64, "a": a, "c": {"k": "scalar", "c": c}, "C": c}));
    }
    for (k, op) in ["ros2_rr", "ros2_bw"].iter().enumerate() {
        // iterate upwards from the WCETs
        let mut r: Vec<u64> = wl.iter().map(|c| u(&c["C"])).collect();
        let mut converged = false;
        for _ in 0..60 {
            let mut next = vec![];
            let mut failed = false;
            for i in 0..n {
                let w: Vec<Value> = (0..n)
                    .map(|j| {
                        let mut c = wl[j].clone();
                        c["R"] = json!(r[j]);
                        c
                    })
                    .collect();
                let inp = json!({"op": op, "supply": supply, "lim": lim, "workload": w, "sub": [i + 1]});
                let out = guarded(&inp, ctx.watchdog_ms, call_ros2);
                match out.get("ok").and_then(|x| x.as_u64()) {
                    Some(v) if v <= lim => next.push(v.max(r[i])),
                    _ => {
                        failed = true;
                        break;
                    }
                }
            }
            if failed {
                break;
            }
            if next == r {
                converged = true;
                break;
            }
            r = next;
        }
        if !converged {
            continue;
        }
        let mut cbs = vec![];
        for i in 0..n {
            let t = wl[i]["t"].as_str().unwrap();
            let cap = cap_of(ctx, &wl[i]["a"], r[i] as i64);
            cbs.push(json!({"t": if t == "timer" { "timer" } else { "polled" },
                            "prio": if t == "polled" { wl[i]["p"].as_i64().unwrap() } else { -1 },
                            "arr": arr_of(&wl[i]["a"]), "succ": 0, "C": wl[i]["C"], "R": r[i], "cap": cap}));
        }
        if !fits(ctx, &cbs, &supply) {
            continue;
        }
        let nontrivial = (0..n).any(|i| r[i] > u(&wl[i]["C"]));
        ctx.sink.raw(&json!({"id": id * 2 + k as u64, "family": op, "supply": supply, "cbs": cbs, "lim": lim, "workload": wl,
                             "nontrivial": nontrivial}));
    }
}

/// The input of finding F15 as an executor workload: the polled callback X (Periodic(7), cost curve [3,4]) next to two
/// polled callbacks of cost 2 (Sporadic(7,0) and the curve [5,10,20,30]) on a dedicated processor, in every priority
/// position of X.  The bound claimed for X is what rta_polling_point_callback returns (7, the steps-only value).
fn f15_example(ctx: &mut Ctx) {
    let lim = 44u64;
    let h = 2 * lim + 4;
    let wd = ctx.watchdog_ms;
    let supply = json!({"k": "dedicated"});
    let ax = json!({"k": "periodic", "T": 7});
    let ay = json!({"k": "sporadic", "T": 7, "J": 0});
    let az = json!({"k": "xcurve", "of": {"k": "curve", "d": [5, 10, 20, 30]}});
    let own = json!({"k": "rbf", "a": ax, "c": {"k": "wxcurve", "of": {"k": "wcurve", "w": [3, 4]}}});
    let others = json!({"k": "rbf", "a": {"k": "sum", "a": ay, "b": az}, "c": {"k": "multiframe", "cs": [2]}});
    let (o, ot) = match (crate::drivers::ros2::demand_rec(&own, h, wd), crate::drivers::ros2::demand_rec(&others, h, wd)) {
        (Some(a), Some(b)) => (a, b),
        _ => return,
    };
    let inp = json!({"op": "ros2_pp", "supply": supply, "lim": lim, "own": o, "others": ot});
    let out = guarded(&inp, wd, call_ros2);
    let r = out.get("ok").and_then(|x| x.as_i64()).unwrap_or(-1);
    for (k, px) in [0i64, 1, 2].iter().enumerate() {
        let mut pr = vec![0i64, 1, 2];
        pr.retain(|p| p != px);
        let cap = cap_of(ctx, &ax, r);
        let cbs = json!([
            {"t": "polled", "prio": px, "arr": arr_of(&ax), "succ": 0, "C": 3, "R": r, "cap": cap, "w": [3, 4]},
            // no claim is checked for Y and Z; their instances do not age (the executor does not look at ages),
            // so a backlog of several instances keeps the state space finite
            {"t": "polled", "prio": pr[0], "arr": arr_of(&ay), "succ": 0, "C": 2, "R": -1, "cap": 4, "w": []},
            {"t": "polled", "prio": pr[1], "arr": arr_of(&az), "succ": 0, "C": 2, "R": -1, "cap": 4, "w": []}]);
        ctx.sink.raw(&json!({"id": 900000 + k as u64, "family": "ecrts19", "supply": supply, "cbs": cbs, "lim": lim,
                             "calls": [{"op": "ros2_pp", "out": out}], "nontrivial": true, "chain": 0, "f15": true}));
    }
}

/// Growth beyond C05's wording: a chain of two or three callbacks s -> m -> k inside an rr / bw workload.  Every
/// callback gets its self-consistent singleton bound; the arrival bound of a chained callback is the conservative
/// propagation of the source's curve (Propagated with jitter = the end-to-end bound of the chain prefix that ends
/// just before it, re-derived in every iteration); the claims checked are rta_subchain(workload, prefix) as
/// end-to-end bounds (activation of s -> completion of the prefix's last callback) for every chain prefix.
fn rrchain(ctx: &mut Ctx, id: u64, lim: u64, tmax: u64, cmax: u64, pmax: u64) {
    let supply = gen_supply(&mut ctx.rng, pmax);
    let cl = if ctx.rng.gen_bool(0.35) { 3usize } else { 2 };
    let n = cl + ctx.rng.gen_range(0..=1usize);
    let tmin = (n as u64 * cmax).saturating_sub(1).max(2);
    let kinds = ["timer", "unknown", "polled"];
    let first = n - cl; // chain members: first .. n-1
    let mut wl: Vec<Value> = vec![];
    for j in 0..n {
        let t = if j > first { ["unknown", "polled"][ctx.rng.gen_range(0..2)] } else { kinds[ctx.rng.gen_range(0..3)] };
        let c = ctx.rng.gen_range(1..=cmax);
        let a = gen_arr(&mut ctx.rng, tmin, tmin + tmax.min(3));
        wl.push(json!({"t": t, "p": ctx.rng.gen_range(0..=2) * 4 + j as i64, "a": a, "c": {"k": "scalar", "c": c}, "C": c}));
    }
    let a_s = wl[first]["a"].clone();
    // the round-robin analysis and the busy-window-aware analysis bound the same executor
    for (k, op) in ["ros2_rr", "ros2_bw"].iter().enumerate() {
        let mut r: Vec<u64> = wl.iter().map(|c| u(&c["C"])).collect();
        // e2e[m] = end-to-end bound of the chain prefix first ..= first + m (e2e[0] is the source's singleton bound)
        let mut e2e: Vec<u64> = (0..cl).map(|m| (0..=m).map(|x| u(&wl[first + x]["C"])).sum()).collect();
        let mut converged = false;
        let with_bounds = |r: &Vec<u64>, e2e: &Vec<u64>| -> Vec<Value> {
            (0..n)
                .map(|j| {
                    let mut c = wl[j].clone();
                    c["R"] = json!(r[j]);
                    if j > first {
                        c["a"] = json!({"k": "prop", "J": e2e[j - first - 1], "of": a_s});
                    }
                    c
                })
                .collect()
        };
        let call = |ctx: &Ctx, w: &Vec<Value>, sub: Vec<usize>| -> Option<u64> {
            let inp = json!({"op": op, "supply": supply, "lim": lim, "workload": w, "sub": sub});
            match guarded(&inp, ctx.watchdog_ms, call_ros2).get("ok").and_then(|x| x.as_u64()) {
                Some(v) if v <= lim => Some(v),
                _ => None,
            }
        };
        for _ in 0..80 {
            let w = with_bounds(&r, &e2e);
            let mut next_r = vec![];
            let mut next_e = vec![];
            let mut failed = false;
            for i in 0..n {
                match call(ctx, &w, vec![i + 1]) {
                    Some(v) => next_r.push(v.max(r[i])),
                    None => {
                        failed = true;
                        break;
                    }
                }
            }
            if failed {
                break;
            }
            next_e.push(next_r[first].max(e2e[0]));
            for m in 1..cl {
                match call(ctx, &w, (first..=first + m).map(|x| x + 1).collect()) {
                    Some(v) => next_e.push(v.max(e2e[m])),
                    None => {
                        failed = true;
                        break;
                    }
                }
            }
            if failed {
                break;
            }
            if next_r == r && next_e == e2e {
                converged = true;
                break;
            }
            r = next_r;
            e2e = next_e;
        }
        if !converged {
            continue;
        }
        let w = with_bounds(&r, &e2e);
        let mut cbs = vec![];
        for i in 0..n {
            let t = wl[i]["t"].as_str().unwrap();
            let (arr, rr, cap) = if i > first {
                let rc = e2e[i - first];
                (json!({"k": "chain"}), rc, cap_of(ctx, &a_s, rc as i64))
            } else {
                (arr_of(&wl[i]["a"]), r[i], cap_of(ctx, &wl[i]["a"], r[i] as i64))
            };
            let succ = if i >= first && i + 1 < n { i + 2 } else { 0 };
            cbs.push(json!({"t": if t == "timer" { "timer" } else { "polled" },
                            "prio": if t == "polled" { wl[i]["p"].as_i64().unwrap() } else { -1 },
                            "arr": arr, "succ": succ, "C": wl[i]["C"], "R": rr, "cap": cap, "w": []}));
        }
        if !fits(ctx, &cbs, &supply) {
            continue;
        }
        ctx.sink.raw(&json!({"id": id * 2 + k as u64, "family": format!("{}_chain", op), "supply": supply, "cbs": cbs, "lim": lim, "workload": w,
                             "singleton_bounds": r, "chain_bounds": e2e, "chain_len": cl, "nontrivial": true}));
    }
}

pub fn run(ctx: &mut Ctx) {
    let family = ctx.arg("--family").unwrap_or("ecrts19".into());
    let nsys: u64 = ctx.arg("--nsys").and_then(|s| s.parse().ok()).unwrap_or(80);
    let (tmax, cmax, pmax, lim) = if ctx.thorough { (9, 3, 6, 60) } else { (7, 2, 4, 40) };
    let clm = if ctx.thorough { 3 } else { 2 };
    if family == "ecrts19" && ctx.thorough {
        f15_example(ctx); // three systems of ~1.6 M states each
    }
    if family == "ecrts19" {
        busy_timer_presets(ctx, 910_000, 120);
    }
    for id in 1..=nsys {
        if family == "ecrts19" {
            ecrts19(ctx, id, lim, tmax, cmax, pmax, clm);
        } else if family == "rrchain" {
            rrchain(ctx, id, lim, tmax, cmax, pmax);
        } else {
            rtss21(ctx, id, lim, tmax, cmax, pmax);
        }
    }
}
