//! Large magnitudes (beyond TLC's 32-bit integers and beyond 2^53, where floating-point shortcuts stop
//! being exact): closed-form supply / arrival / demand queries at isolated large arguments.  The recorded
//! values are checked against the closed forms of `spec/apalache/ClosedForms.tla` by Apalache (unbounded
//! integers); no judgement here.

use rand::Rng;
use serde_json::{json, Value};

use response_time_analysis::demand::RequestBound;
use response_time_analysis::fixed_point;
use response_time_analysis::time::{Duration, Offset, Service};

use crate::describe::*;
use crate::Ctx;

fn big_supply_call(inp: &Value) -> Value {
    let sup = build_supply(&inp["supply"]);
    let sbf: Vec<u64> = us(&inp["xs"]).into_iter().map(|x| u64::from(sup.provided_service(d(x)))).collect();
    let st: Vec<u64> = us(&inp["ds"]).into_iter().map(|x| u64::from(sup.service_time(s(x)))).collect();
    let mut out = json!({ "sbf": sbf, "st": st });
    if inp["with_default"].as_bool() == Some(true) {
        let mut dflt = inp["supply"].clone();
        dflt["default_inverse"] = json!(true);
        let sup_d = build_supply(&dflt);
        let std: Vec<u64> = us(&inp["ds"]).into_iter().map(|x| u64::from(sup_d.service_time(s(x)))).collect();
        out["std"] = json!(std);
    }
    out
}

fn big_eta_call(inp: &Value) -> Value {
    let ab = build_arrival(&inp["a"]);
    let eta: Vec<u64> = us(&inp["xs"]).into_iter().map(|x| ab.number_arrivals(d(x)) as u64).collect();
    let steps: Vec<u64> = ab.steps_iter().take(u(&inp["nsteps"]) as usize).map(u64::from).collect();
    let rbf = build_demand(&json!({"k": "rbf", "a": inp["a"], "c": {"k": "scalar", "c": inp["C"]}}));
    let sn: Vec<u64> = us(&inp["xs"]).into_iter().map(|x| u64::from(rbf.service_needed(d(x)))).collect();
    json!({ "eta": eta, "steps": steps, "sn": sn })
}

fn pow2ish(ctx: &mut Ctx, lo: u32, hi: u32) -> u64 {
    let k = ctx.rng.gen_range(lo..=hi);
    let off = ctx.rng.gen_range(0..=14u64);
    ((1u64 << k) + off).saturating_sub(7).max(1)
}

pub fn run(ctx: &mut Ctx) {
    let n = if ctx.thorough { 400 } else { 60 };
    let only = ctx.arg("--only").unwrap_or("all".into());
    near_top(ctx, &only);
    for i in 0..n {
        // ---- reservations: period either tiny (astronomically many periods) or itself beyond 32 bits
        let p = if i % 3 == 0 { ctx.rng.gen_range(1..=20u64) } else { pow2ish(ctx, 33, 57) };
        let q = match ctx.rng.gen_range(0..5) {
            0 => 1,
            1 => p,
            2 => (p / 3).max(1),
            3 => (p - 1).max(1),
            _ => ctx.rng.gen_range(1..=p),
        };
        let dl = match ctx.rng.gen_range(0..3) {
            0 => q,
            1 => p,
            _ => ctx.rng.gen_range(q..=p),
        };
        let supply = match ctx.rng.gen_range(0..5) {
            0 => json!({"k": "periodic", "Q": q, "P": p}),
            1 => json!({"k": "dedicated"}),
            _ => json!({"k": "constrained", "Q": q, "D": dl, "P": p}),
        };
        let (qq, pp) = if kind(&supply) == "dedicated" { (1, 1) } else { (q, p) };
        let top = 1u64 << 60;
        let mmax = (top / pp).max(1);
        let mut xs: Vec<u64> = vec![0, (1 << 53) - 1, (1 << 53) + 1, (1 << 54) + 1, (1 << 60) - 1];
        for _ in 0..8 {
            let m = ctx.rng.gen_range(1..=mmax);
            let r = [0, 1, pp - qq, 2 * (pp - qq), 2 * (pp - qq) + 1, pp - 1][ctx.rng.gen_range(0..6)];
            xs.push(m.saturating_mul(pp).saturating_add(r).min(top));
            xs.push(ctx.rng.gen_range(1..=top));
        }
        // demands whose inverse stays below 2^61
        let dmax = ((1u64 << 59) / pp).max(1);
        let mut ds: Vec<u64> = vec![0, 1];
        for _ in 0..6 {
            let m = ctx.rng.gen_range(1..=dmax);
            let r = [0, 1, qq - 1][ctx.rng.gen_range(0..3)];
            ds.push(m.saturating_mul(qq).saturating_add(r));
        }
        // the trait's default inverse jumps ahead by the missing service: geometric with ratio 1 - Q/P, but one
        // time unit per iteration inside a supply gap -- only meaningful for substantial budgets and short gaps
        let with_default = 2 * qq >= pp && pp - qq <= 500;
        if only != "eta" {
            ctx.call("big_supply", json!({"supply": supply, "xs": xs, "ds": ds, "with_default": with_default}), big_supply_call);
        }

        // ---- periodic / sporadic arrivals and their scalar request bound
        let t = if i % 2 == 0 { ctx.rng.gen_range(1..=20u64) } else { pow2ish(ctx, 33, 50) };
        let j = match ctx.rng.gen_range(0..3) {
            0 => 0,
            1 => ctx.rng.gen_range(0..=3 * t),
            _ => ctx.rng.gen_range(0..=t),
        };
        let a = if j == 0 && ctx.rng.gen_bool(0.5) { json!({"k": "periodic", "T": t}) } else { json!({"k": "sporadic", "T": t, "J": j}) };
        let c = ctx.rng.gen_range(1..=7u64);
        let top = 1u64 << 59;
        let mut xs: Vec<u64> = vec![0, 1, (1 << 53) + 1, (1 << 54) + 3, top];
        for _ in 0..8 {
            let m = ctx.rng.gen_range(1..=(top / t).max(1));
            let r = [0, 1, 2, t - 1][ctx.rng.gen_range(0..4)];
            xs.push((m.saturating_mul(t).saturating_add(r)).saturating_sub(j.min(m.saturating_mul(t))).max(1).min(top));
            xs.push(ctx.rng.gen_range(1..=top));
        }
        if only != "supply" {
            ctx.call("big_eta", json!({"a": a, "T": t, "J": j, "C": c, "xs": xs, "nsteps": 6}), big_eta_call);
        }
    }
}

/// Periods of 2^61..2^63 and windows up to u64::MAX, chosen so that neither the result nor any intermediate term of
/// the library's arithmetic leaves the u64 range (checked here in u128): the library has to be exact there too.
fn near_top(ctx: &mut Ctx, only: &str) {
    let max = u64::MAX as u128;
    if only != "supply" {
        for t in [(1u64 << 61) + 1, 1 << 62, (1 << 62) + 5, (1 << 63) - 3] {
            for j in [0u64, 5] {
                let a = if j == 0 { json!({"k": "periodic", "T": t}) } else { json!({"k": "sporadic", "T": t, "J": j}) };
                let mmax = ((max - 8) / t as u128) as u64;
                let mut xs: Vec<u64> = vec![0, 1, t - 1, t, t + 1];
                for m in 1..=mmax {
                    for r in [0u64, 1, 2] {
                        let x = m as u128 * t as u128 + r as u128;
                        // the step of the m-th further job lies at m*T + 1 - J
                        for y in [x, x.saturating_sub(j as u128)] {
                            if y >= 1 && y + j as u128 <= max {
                                xs.push(y as u64);
                            }
                        }
                    }
                }
                xs.sort();
                xs.dedup();
                let nsteps = (mmax + 1).min(4);
                ctx.call("big_eta", json!({"a": a, "T": t, "J": j, "C": 1 + j % 2, "xs": xs, "nsteps": nsteps}), big_eta_call);
            }
        }
    }
    if only != "eta" {
        for p in [(1u64 << 61) + 1, 1 << 62] {
            for q in [1u64, p / 3, p - 1, p] {
                for dl in [q, p] {
                    let supply = if dl == p && q % 2 == 1 { json!({"k": "periodic", "Q": q, "P": p}) } else { json!({"k": "constrained", "Q": q, "D": dl, "P": p}) };
                    let mut xs: Vec<u64> = vec![0, 1, 1 << 63];
                    for m in [0u64, 1] {
                        for r in [0, 1, p - q, 2 * (p - q), 2 * (p - q) + 1, p - 1] {
                            xs.push(m * p + r);
                        }
                    }
                    xs.sort();
                    xs.dedup();
                    let ds: Vec<u64> = vec![0, 1, q.saturating_sub(1), q, q + 1];
                    let with_default = 2 * q >= p && p - q <= 500;
                    ctx.call("big_supply", json!({"supply": supply, "xs": xs, "ds": ds, "with_default": with_default}), big_supply_call);
                }
            }
        }
    }
}

/// Arguments at the very top of the u64 range (C20: totality and profile independence include the overflow checks).
pub fn run_extreme(ctx: &mut Ctx) {
    let m = u64::MAX;
    let tops = [m, m - 1, m / 2 + 1, m / 2, (1u64 << 63) + 5, m - 1000];
    let supplies = [
        json!({"k": "dedicated"}),
        json!({"k": "periodic", "Q": 1, "P": 1}),
        json!({"k": "periodic", "Q": 3, "P": 5}),
        json!({"k": "periodic", "Q": 1, "P": 1000}),
        json!({"k": "constrained", "Q": 2, "D": 3, "P": 5}),
        json!({"k": "constrained", "Q": 5, "D": 5, "P": 5}),
    ];
    for sup in supplies.iter() {
        for x in tops.iter() {
            ctx.call("big_supply", json!({"supply": sup, "xs": [x], "ds": [], "with_default": false}), big_supply_call);
            ctx.call("big_supply", json!({"supply": sup, "xs": [], "ds": [x], "with_default": false}), big_supply_call);
        }
    }
    for (t, j) in [(1u64, 0u64), (10, 0), (10, 5), (10, 25), (1000, 999)] {
        for x in tops.iter() {
            let a = if j == 0 { json!({"k": "periodic", "T": t}) } else { json!({"k": "sporadic", "T": t, "J": j}) };
            ctx.call("big_eta", json!({"a": a, "T": t, "J": j, "C": 1, "xs": [x], "nsteps": 3}), big_eta_call);
        }
    }
}

/// The discrete time model of src/time.rs (offsets, durations, service; open / closed interval conventions): every
/// operator on pairs of small and of large values.  Preconditions of the partial operators are respected
/// (closed_from_time_zero and Sub need a positive / large enough left operand, distance_to an ordered pair).
fn time_ops_call(inp: &Value) -> Value {
    let a = u(&inp["a"]);
    let b = u(&inp["b"]);
    let k = u(&inp["k"]);
    let (da, db) = (Duration::from(a), Duration::from(b));
    let (sa, sb) = (Service::from(a), Service::from(b));
    let (oa, ob) = (Offset::from(a), Offset::from(b));
    let lst: Vec<u64> = us(&inp["list"]);
    let mut out = json!({
        "fz": u64::from(Offset::from_time_zero(da)),
        "sz": u64::from(oa.since_time_zero()),
        "csz": u64::from(oa.closed_since_time_zero()),
        "oadd": u64::from(oa + db),
        "dadd": u64::from(da + db),
        "dsat": u64::from(da.saturating_sub(db)),
        "ssat": u64::from(sa.saturating_sub(sb)),
        "dmul": u64::from(da * k),
        "smul": u64::from(sa * k),
        "sadd": u64::from(sa + sb),
        "d2s": u64::from(Service::from(da)),
        "s2d": u64::from(Duration::from(sa)),
        "dsum": u64::from(lst.iter().map(|x| Duration::from(*x)).sum::<Duration>()),
        "ssum": u64::from(lst.iter().map(|x| Service::from(*x)).sum::<Service>()),
        "nz": da.is_non_zero(), "z": da.is_zero(), "snone": sa.is_none(),
        "lt": da < db, "olt": oa < ob,
    });
    if a >= 1 {
        out["cfz"] = json!(u64::from(Offset::closed_from_time_zero(da)));
    }
    if a <= b {
        out["dist"] = json!(u64::from(oa.distance_to(ob)));
    }
    if a >= b {
        out["dsub"] = json!(u64::from(da - db));
        out["ssub"] = json!(u64::from(sa - sb));
    }
    if b >= 1 {
        out["ddiv"] = json!(da / db);
        out["drem"] = json!(u64::from(da % db));
    }
    out
}

pub fn run_time(ctx: &mut Ctx) {
    let mut pairs: Vec<(u64, u64)> = vec![];
    for a in 0..=5u64 {
        for b in 0..=5u64 {
            pairs.push((a, b));
        }
    }
    let n = if ctx.thorough { 200 } else { 40 };
    for _ in 0..n {
        let a = pow2ish(ctx, 31, 58);
        let b = match ctx.rng.gen_range(0..4) {
            0 => a,
            1 => pow2ish(ctx, 31, 58),
            2 => ctx.rng.gen_range(0..=9),
            _ => a.saturating_sub(ctx.rng.gen_range(0..=3)),
        };
        pairs.push((a, b));
        pairs.push((b, a));
    }
    for (a, b) in pairs {
        let k = if a < (1 << 20) { ctx.rng.gen_range(0..=1000u64) } else { ctx.rng.gen_range(0..=15u64) };
        let list: Vec<u64> = vec![a, b, a / 2, 1, 0];
        ctx.call("time_ops", json!({"a": a, "b": b, "k": k, "list": list}), time_ops_call);
    }
}

/// fixed_point::search_with_offset at large magnitudes: the workload is the request bound of a few sporadic tasks plus
/// a constant; the closure logs every interval length it is asked about and the value it returns, i.e. the iteration
/// the implementation ran (checked step by step against the closed forms by Apalache).
fn big_search_call(inp: &Value) -> Value {
    let sup = build_supply(&inp["supply"]);
    let parts: Vec<Value> = inp["tasks"].as_array().unwrap().iter()
        .map(|t| json!({"k": "rbf", "a": {"k": "sporadic", "T": t["T"], "J": t["J"]}, "c": {"k": "scalar", "c": t["C"]}}))
        .collect();
    let agg = build_demand(&json!({"k": "agg", "of": parts}));
    let b0 = u(&inp["B0"]);
    let log = std::cell::RefCell::new(Vec::<(u64, u64)>::new());
    let wl = |x: Duration| {
        let v = u64::from(agg.service_needed(x)) + b0;
        log.borrow_mut().push((u64::from(x), v));
        s(v)
    };
    let res = fixed_point::search_with_offset(&sup, Offset::from(u(&inp["off"])), d(u(&inp["lim"])), &wl);
    let l = log.borrow();
    json!({"res": crate::outcome::result_json(res), "asked": l.iter().map(|p| p.0).collect::<Vec<u64>>(),
           "w": l.iter().map(|p| p.1).collect::<Vec<u64>>()})
}

pub fn run_search(ctx: &mut Ctx) {
    let n = if ctx.thorough { 600 } else { 80 };
    for i in 0..n {
        // a small system, blown up by an odd factor and then perturbed (so it is not an exact multiple any more)
        let k = (1u64 << ctx.rng.gen_range(36..=54)) + 2 * ctx.rng.gen_range(0..500u64) + 1;
        let nt = ctx.rng.gen_range(1..=3usize);
        let tmin = 4 * nt as u64;
        let tasks: Vec<Value> = (0..nt).map(|_| {
            let t = ctx.rng.gen_range(tmin..=tmin + 12) * k + ctx.rng.gen_range(0..1000);
            let j = if ctx.rng.gen_bool(0.5) { 0 } else { ctx.rng.gen_range(0..=20) * k + ctx.rng.gen_range(0..1000) };
            let c = ctx.rng.gen_range(1..=3) * k + ctx.rng.gen_range(0..1000);
            json!({"T": t, "J": j, "C": c})
        }).collect();
        let b0 = if ctx.rng.gen_bool(0.5) { 0 } else { ctx.rng.gen_range(0..=3) * k + ctx.rng.gen_range(0..1000) };
        let p = ctx.rng.gen_range(2..=8u64) * k + ctx.rng.gen_range(0..1000);
        let q = (p / 8 * ctx.rng.gen_range(5..=8)).max(1).min(p);
        let dl = ctx.rng.gen_range(q..=p);
        let supply = match i % 3 {
            0 => json!({"k": "dedicated"}),
            1 => json!({"k": "periodic", "Q": q, "P": p}),
            _ => json!({"k": "constrained", "Q": q, "D": dl, "P": p}),
        };
        // offsets inside the initial supply gap keep the premise "demand not yet met at the offset" (W(1) >= 1)
        let off = if i % 3 == 0 || ctx.rng.gen_bool(0.5) { 0 } else { ctx.rng.gen_range(0..=(p - q)) };
        let lim = if ctx.rng.gen_bool(0.3) { ctx.rng.gen_range(1..=8) * k } else { 400 * k };
        ctx.call("big_search", json!({"supply": supply, "tasks": tasks, "B0": b0, "off": off, "lim": lim}), big_search_call);
    }
}
