//! C09 (R2 part): tables of provided_service / service_time for every
//! supply kind, incl. the trait's default inverse.

use rand::Rng;
use serde_json::{json, Value};

use response_time_analysis::supply::SupplyBound;

use crate::describe::*;
use crate::Ctx;

fn tables(inp: &Value) -> Value {
    let sup = build_supply(&inp["supply"]);
    let mut dflt = inp["supply"].clone();
    dflt["default_inverse"] = json!(true);
    let sup_d = build_supply(&dflt);
    let h = u(&inp["H"]);
    let dm = u(&inp["Dm"]);
    let sbf: Vec<u64> = (0..=h).map(|x| u64::from(sup.provided_service(d(x)))).collect();
    let st: Vec<u64> = (0..=dm).map(|x| u64::from(sup.service_time(s(x)))).collect();
    let std: Vec<u64> = (0..=dm).map(|x| u64::from(sup_d.service_time(s(x)))).collect();
    json!({ "sbf": sbf, "st": st, "std": std })
}

fn emit(ctx: &mut Ctx, supply: Value) {
    let (q, p) = match kind(&supply) {
        "dedicated" => (1, 1),
        _ => (u(&supply["Q"]), u(&supply["P"])),
    };
    let h = 3 * p + 2;
    let dm = (4 * q + 3).min(80);
    let inp = json!({ "supply": supply, "H": h, "Dm": dm });
    ctx.call("sbf", inp, tables);
}

fn points(inp: &Value) -> Value {
    let sup = build_supply(&inp["supply"]);
    let mut dflt = inp["supply"].clone();
    dflt["default_inverse"] = json!(true);
    let sup_d = build_supply(&dflt);
    let sbf: Vec<u64> = us(&inp["xs"]).into_iter().map(|x| u64::from(sup.provided_service(d(x)))).collect();
    let st: Vec<u64> = us(&inp["ds"]).into_iter().map(|x| u64::from(sup.service_time(s(x)))).collect();
    let std: Vec<u64> = us(&inp["ds"]).into_iter().map(|x| u64::from(sup_d.service_time(s(x)))).collect();
    json!({ "sbf": sbf, "st": st, "std": std })
}

/// isolated large arguments (hundreds of periods): the closed form must hold there too
fn emit_points(ctx: &mut Ctx, supply: Value) {
    let (q, p) = match kind(&supply) {
        "dedicated" => (1, 1),
        _ => (u(&supply["Q"]), u(&supply["P"])),
    };
    let mut xs = vec![];
    let mut ds = vec![];
    for _ in 0..12 {
        let k = ctx.rng.gen_range(1..=400u64);
        let off = ctx.rng.gen_range(0..=2 * p);
        xs.push(k * p + off);
        xs.push((k * p + off).saturating_sub(p - q));
        let kd = ctx.rng.gen_range(1..=400u64);
        ds.push(kd * q);
        ds.push(kd * q + ctx.rng.gen_range(0..=q));
        ds.push((kd * q).saturating_sub(1));
    }
    ctx.call("sbf_points", json!({ "supply": supply, "xs": xs, "ds": ds }), points);
}

/// the trait's default service_time on a supply that logs what it is asked: one run per demand
fn inverse_trace(inp: &Value) -> Value {
    let sup = LoggingInverse { inner: build_supply(&inp["supply"]), log: std::cell::RefCell::new(vec![]) };
    let runs: Vec<Value> = us(&inp["ds"]).into_iter().map(|dm| {
        sup.log.borrow_mut().clear();
        let t = u64::from(sup.service_time(s(dm)));
        json!({"d": dm, "t": t, "asked": sup.log.borrow().clone()})
    }).collect();
    json!({ "runs": runs })
}

fn emit_inverse_traces(ctx: &mut Ctx) {
    let mut sups = vec![json!({"k": "dedicated"})];
    for p in 1..=6u64 {
        for q in 1..=p {
            sups.push(json!({"k": "periodic", "Q": q, "P": p}));
            for dl in q..=p {
                sups.push(json!({"k": "constrained", "Q": q, "D": dl, "P": p}));
            }
        }
    }
    for pat in [vec![1u64], vec![0, 1], vec![1, 0, 0, 1], vec![0, 0, 1, 1, 0, 1], vec![0, 0, 0, 0, 1]] {
        sups.push(json!({"k": "stair", "pattern": pat}));
    }
    let n = if ctx.thorough { 600 } else { 60 };
    for _ in 0..n {
        let p = ctx.rng.gen_range(7..=40u64);
        let q = ctx.rng.gen_range(1..=p);
        let dl = ctx.rng.gen_range(q..=p);
        sups.push(json!({"k": "constrained", "Q": q, "D": dl, "P": p}));
    }
    for sd in sups {
        let ds: Vec<u64> = (0..=12).chain([17u64, 23, 40]).collect();
        ctx.call("inverse_trace", json!({"supply": sd, "ds": ds}), inverse_trace);
    }
}

pub fn run(ctx: &mut Ctx) {
    emit_inverse_traces(ctx);
    let pmax = if ctx.thorough { 40 } else { 14 };
    emit(ctx, json!({ "k": "dedicated" }));
    for p in 1..=pmax {
        for q in 1..=p {
            emit(ctx, json!({ "k": "periodic", "Q": q, "P": p }));
            for dl in q..=p {
                emit(ctx, json!({ "k": "constrained", "Q": q, "D": dl, "P": p }));
            }
        }
    }
    let n = if ctx.thorough { 4000 } else { 300 };
    let big = if ctx.thorough { 400 } else { 120 };
    for _ in 0..n {
        let p = ctx.rng.gen_range(1..=big);
        let q = ctx.rng.gen_range(1..=p);
        let dl = ctx.rng.gen_range(q..=p);
        let sd = if ctx.rng.gen_bool(0.3) {
            json!({ "k": "periodic", "Q": q, "P": p })
        } else {
            json!({ "k": "constrained", "Q": q, "D": dl, "P": p })
        };
        emit(ctx, sd.clone());
        emit_points(ctx, sd);
    }
}
