//! R1 parts of C09 (reservation placements) and C10 / C13(c) (event generators):
//! tables claimed by the implementation for the world models
//! spec/Reservation.tla and spec/ArrivalProc.tla.

use rand::Rng;
use serde_json::{json, Value};

use crate::describe::*;
use crate::drivers::arrival::eta_table;
use crate::outcome::guarded;
use crate::Ctx;

fn sbf_call(inp: &Value) -> Value {
    let sup = build_supply(&inp["supply"]);
    json!((0..=u(&inp["H"])).map(|x| u64::from(sup.provided_service(d(x)))).collect::<Vec<u64>>())
}

pub fn run_resv(ctx: &mut Ctx) {
    let pmax = if ctx.thorough { 10 } else { 7 };
    let mut id = 0;
    for p in 1..=pmax {
        for q in 1..=p {
            for dl in q..=p {
                id += 1;
                let sup = if dl == p && (p + q) % 2 == 0 {
                    json!({"k": "periodic", "Q": q, "P": p})
                } else {
                    json!({"k": "constrained", "Q": q, "D": dl, "P": p})
                };
                let h = 3 * p + 2;
                let out = guarded(&json!({"supply": sup, "H": h}), ctx.watchdog_ms, sbf_call);
                if out.is_array() {
                    ctx.sink.raw(&json!({"id": id, "Q": q, "D": dl, "P": p, "sbf": out, "supply": sup, "nontrivial": q < p}));
                }
            }
        }
    }
}

fn eta_call(inp: &Value) -> Value {
    json!(eta_table(&build_arrival(&inp["m"]), u(&inp["H"])))
}

/// generators of ArrivalProc.tla for a model description; None if the model has no generator
fn gens_of(m: &Value, extra: u64) -> Option<Vec<Value>> {
    match kind(m) {
        "periodic" => Some(vec![json!({"gen": "sporadic", "T": m["T"], "J": 0, "X": extra})]),
        "sporadic" => Some(vec![json!({"gen": "sporadic", "T": m["T"], "J": m["J"], "X": extra})]),
        "curve" => Some(vec![json!({"gen": "dmin", "d": m["d"], "X": extra})]),
        "xcurve" => Some(vec![json!({"gen": "dmin", "d": m["of"]["d"], "X": extra})]),
        "cext" => gens_of(&m["of"], extra), // an extrapolated prefix still bounds the sequences of the original one
        "prop" | "jit" | "prop_sporadic" => gens_of(&m["of"], extra + u(&m["J"])),
        "sum" => {
            let mut a = gens_of(&m["a"], extra)?;
            a.extend(gens_of(&m["b"], extra)?);
            Some(a)
        }
        "vec" | "slice" => {
            let mut all = vec![];
            for x in m["of"].as_array().unwrap() {
                all.extend(gens_of(x, extra)?);
            }
            Some(all)
        }
        "wrap" => gens_of(&m["of"], extra),
        _ => None,
    }
}

fn emit(ctx: &mut Ctx, id: &mut u64, m: Value, hcap: u64) {
    let gens = match gens_of(&m, 0) {
        Some(g) if !g.is_empty() && g.len() <= 2 => g,
        _ => return,
    };
    let h = (2 * crate::gen::span(&m) + 3).min(hcap);
    let out = guarded(&json!({"m": m, "H": h}), ctx.watchdog_ms, eta_call);
    if !out.is_array() {
        return;
    }
    *id += 1;
    // the bound is attained for plain Periodic / Sporadic models (C10) and for auto-extrapolating
    // super-additive prefixes (the tight curve of the prefix-respecting sequences)
    let attained = matches!(kind(&m), "periodic" | "sporadic")
        || (kind(&m) == "xcurve" && crate::gen::is_superadditive(&us(&m["of"]["d"])));
    let nontrivial = out.as_array().unwrap().iter().collect::<std::collections::HashSet<_>>().len() > 2;
    ctx.sink.raw(&json!({"id": *id, "gens": gens, "eta": out, "m": m, "attained": attained, "nontrivial": nontrivial}));
    // the compact recogniser of Sched.tla / Ros2Exec.tla against the same table (see ArrivalProc.tla)
    if matches!(kind(&m), "periodic" | "sporadic") {
        *id += 1;
        let j = m.get("J").and_then(|x| x.as_u64()).unwrap_or(0);
        ctx.sink.raw(&json!({"id": *id, "gens": [{"gen": "csporadic", "T": m["T"], "J": j, "X": 0}], "eta": out, "m": m,
                             "attained": true, "nontrivial": nontrivial, "compact": true}));
    }
}

pub fn run_procs(ctx: &mut Ctx) {
    let ext_only = ctx.arg("--ext").is_some();
    let (tmax, hcap) = if ctx.thorough { (6, 30) } else { (4, 16) };
    let mut id = 0u64;
    if !ext_only {
        for t in 1..=tmax {
            emit(ctx, &mut id, json!({"k": "periodic", "T": t}), hcap);
            for j in 0..=(t + 2).min(2 * t) {
                let sp = json!({"k": "sporadic", "T": t, "J": j});
                emit(ctx, &mut id, sp.clone(), hcap);
                if j <= 1 {
                    for x in 1..=2u64 {
                        emit(ctx, &mut id, json!({"k": "prop", "J": x, "of": sp.clone()}), hcap);
                        emit(ctx, &mut id, json!({"k": "jit", "J": x, "of": sp.clone()}), hcap);
                    }
                    emit(ctx, &mut id, json!({"k": "sum", "a": sp.clone(), "b": {"k": "periodic", "T": (t % 3) + 2}}), hcap);
                }
            }
        }
    }
    // delta-min prefixes (plain, auto-extrapolating, extended, propagated)
    let emax = if ctx.thorough { 6 } else { 4 };
    for a in 0..=emax {
        for b in a..=emax {
            for c in b..=emax {
                for dm in [vec![a, b, c], vec![b, c]] {
                    if dm.len() == 2 && a != 0 || *dm.last().unwrap() == 0 || !crate::gen::is_superadditive(&dm) {
                        continue;
                    }
                    let cv = json!({"k": "curve", "d": dm});
                    let last = *dm.last().unwrap();
                    if !ext_only {
                        emit(ctx, &mut id, cv.clone(), hcap);
                        emit(ctx, &mut id, json!({"k": "xcurve", "of": cv.clone()}), hcap);
                        emit(ctx, &mut id, json!({"k": "prop", "J": 1 + a % 2, "of": json!({"k": "xcurve", "of": cv.clone()})}), hcap);
                    }
                    // C13(c): extrapolated curves still bound every sequence respecting the original prefix
                    emit(ctx, &mut id, json!({"k": "cext", "how": "h", "arg": 2 * last + 1, "of": cv.clone()}), hcap);
                    emit(ctx, &mut id, json!({"k": "cext", "how": "n", "arg": dm.len() as u64 + 2, "of": cv.clone()}), hcap);
                }
            }
        }
    }
    if !ext_only {
        let n = if ctx.thorough { 300 } else { 40 };
        for _ in 0..n {
            let o = crate::gen::Opts { allow_zero: true, ..crate::gen::Opts::basic(tmax) };
            let m = crate::gen::arrival(&mut ctx.rng, 1, &o);
            emit(ctx, &mut id, m, hcap);
        }
        let _ = ctx.rng.gen_range(0..2);
    }
}
