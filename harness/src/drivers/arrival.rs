//! C10 (R2 part): tables of number_arrivals; C11: steps_iter vs the table.

use rand::Rng;
use serde_json::{json, Value};

use crate::describe::*;
use crate::gen;
use crate::Ctx;

pub fn eta_table(ab: &AB, h: u64) -> Vec<u64> {
    (0..=h).map(|x| ab.number_arrivals(d(x)) as u64).collect()
}

fn eta_call(inp: &Value) -> Value {
    let ab = build_arrival(&inp["m"]);
    json!({ "eta": eta_table(&ab, u(&inp["H"])) })
}

fn jit_compose_call(inp: &Value) -> Value {
    let a = u(&inp["a"]);
    let b = u(&inp["b"]);
    let h = u(&inp["H"]);
    let m = build_arrival(&inp["m"]);
    let ma: AB = std::rc::Rc::from(m.clone_with_jitter(d(a)));
    let mab: AB = std::rc::Rc::from(ma.clone_with_jitter(d(b)));
    let ms: AB = std::rc::Rc::from(m.clone_with_jitter(d(a + b)));
    json!({ "ab": eta_table(&mab, h), "s": eta_table(&ms, h) })
}

fn eta_points_call(inp: &Value) -> Value {
    let ab = build_arrival(&inp["m"]);
    json!({ "eta": us(&inp["xs"]).into_iter().map(|x| ab.number_arrivals(d(x)) as u64).collect::<Vec<u64>>() })
}

fn curve_free(m: &Value) -> bool {
    match kind(m) {
        "never" | "periodic" | "sporadic" | "user" | "prop_sporadic" => true,
        "prop" | "jit" | "wrap" => curve_free(&m["of"]),
        "sum" => curve_free(&m["a"]) && curve_free(&m["b"]),
        "vec" | "slice" => m["of"].as_array().unwrap().iter().all(curve_free),
        _ => false,
    }
}

/// a delta-min prefix that admits (on average) one job per time unit or more somewhere inside the model: the
/// specification's closure of such a prefix over a long horizon has hundreds of entries and is slow to evaluate in TLC
fn has_dense_prefix(m: &Value) -> bool {
    match m {
        Value::Object(o) => {
            let dense_here = o.get("d").and_then(|d| d.as_array()).map(|d| {
                let last = d.last().and_then(|x| x.as_u64()).unwrap_or(u64::MAX);
                !d.is_empty() && last <= d.len() as u64
            }).unwrap_or(false);
            dense_here || o.values().any(has_dense_prefix)
        }
        Value::Array(a) => a.iter().any(has_dense_prefix),
        _ => false,
    }
}

pub fn horizon(m: &Value, cap: u64) -> u64 {
    let cap = if has_dense_prefix(m) { cap.min(90) } else { cap };
    (3 * gen::span(m) + 4).min(cap)
}

fn emit_eta(ctx: &mut Ctx, m: Value, cap: u64) {
    let h = horizon(&m, cap);
    let inp = json!({ "m": m, "H": h, "tags": gen::tags(&m) });
    ctx.call("eta", inp, eta_call);
}

pub fn run_eta(ctx: &mut Ctx) {
    let (tmax, cap) = if ctx.thorough { (12, 260) } else { (6, 120) };
    for t in 1..=tmax {
        emit_eta(ctx, json!({"k": "periodic", "T": t}), cap);
        for j in 0..=(2 * t + 2) {
            emit_eta(ctx, json!({"k": "sporadic", "T": t, "J": j}), cap);
            if j <= 3 {
                for j2 in [0u64, 1, t, t + 1] {
                    emit_eta(ctx, json!({"k": "prop", "J": j2, "of": {"k": "sporadic", "T": t, "J": j}}), cap);
                    emit_eta(ctx, json!({"k": "jit", "J": j2, "of": {"k": "sporadic", "T": t, "J": j}}), cap);
                }
            }
        }
    }
    // all super-additive prefixes of length <= 3 with small entries
    let emax = if ctx.thorough { 9 } else { 6 };
    for a in 0..=emax {
        for b in a..=emax {
            for c in b..=emax {
                for len in 1..=3usize {
                    let dm: Vec<u64> = [a, b, c][..len].to_vec();
                    if *dm.last().unwrap() == 0 {
                        continue;
                    }
                    if len < 3 && (c != b || (len < 2 && b != a)) {
                        continue; // enumerate shorter prefixes once
                    }
                    let cv = json!({"k": "curve", "d": dm});
                    emit_eta(ctx, cv.clone(), cap);
                    emit_eta(ctx, json!({"k": "xcurve", "of": cv.clone()}), cap);
                    emit_eta(ctx, json!({"k": "prop", "J": (a + 1) % 4, "of": cv}), cap);
                }
            }
        }
    }
    // FromIterator for Curve: arbitrary (also non-monotone) distance sequences are repaired to a monotone prefix
    let nfi = if ctx.thorough { 1500 } else { 200 };
    for _ in 0..nfi {
        let l = ctx.rng.gen_range(1..=5);
        let mut dm: Vec<u64> = (0..l).map(|_| ctx.rng.gen_range(0..=9)).collect();
        if dm.iter().all(|x| *x == 0) {
            dm[l - 1] = 3;
        }
        emit_eta(ctx, json!({"k": "citer", "d": dm}), cap);
    }
    let n = if ctx.thorough { 6000 } else { 500 };
    let tm = if ctx.thorough { 40 } else { 14 };
    for i in 0..n {
        let o = if i % 2 == 0 { gen::Opts::basic(tm) } else { gen::Opts::all(tm) };
        let m = gen::arrival(&mut ctx.rng, 2, &o);
        emit_eta(ctx, m.clone(), cap);
        if curve_free(&m) {
            // isolated long intervals: exact multiples of the periods, one more, one less, random
            let t = gen::span(&m).max(1);
            let mut xs = vec![];
            for _ in 0..6 {
                let k = ctx.rng.gen_range(1..=5000u64);
                xs.push(k * t);
                xs.push(k * t + 1);
                xs.push((k * t).saturating_sub(1));
                xs.push(ctx.rng.gen_range(1..=1_000_000u64));
            }
            ctx.call("eta_points", json!({ "m": m, "xs": xs, "tags": gen::tags(&m) }), eta_points_call);
        }
        if i % 3 == 0 {
            let a = ctx.rng.gen_range(0..=tm);
            let b = ctx.rng.gen_range(0..=tm);
            let h = horizon(&m, cap);
            let inp = json!({ "m": m, "a": a, "b": b, "H": h, "tags": gen::tags(&m) });
            ctx.call("jit_compose", inp, jit_compose_call);
        }
    }
}

// ---------------------------------------------------------------------------
fn steps_items(it: &mut dyn Iterator<Item = response_time_analysis::time::Duration>, h: u64) -> (Vec<u64>, bool) {
    let mut items = vec![];
    let mut exhausted = false;
    let cap = (4 * h + 16) as usize;
    loop {
        match it.next() {
            None => {
                exhausted = true;
                break;
            }
            Some(x) => {
                let x = u64::from(x);
                items.push(x);
                if x > h || items.len() >= cap {
                    break;
                }
            }
        }
    }
    (items, exhausted)
}

fn steps_call(inp: &Value) -> Value {
    let h = u(&inp["H"]);
    if inp.get("m").is_some() {
        let ab = build_arrival(&inp["m"]);
        let tbl = eta_table(&ab, h);
        let (items, ex) = steps_items(&mut *ab.steps_iter(), h);
        json!({ "tbl": tbl, "items": items, "exhausted": ex })
    } else {
        let rb = build_demand(&inp["dm"]);
        let tbl: Vec<u64> = (0..=h).map(|x| u64::from(rb.service_needed(d(x)))).collect();
        let (items, ex) = steps_items(&mut *rb.steps_iter(), h);
        // demand::step_offsets: the same stream shifted by one
        let n = items.len();
        let rb2 = rb.clone();
        let offs = std::panic::catch_unwind(std::panic::AssertUnwindSafe(|| {
            response_time_analysis::demand::step_offsets(&rb2)
                .take(n)
                .map(u64::from)
                .collect::<Vec<u64>>()
        }));
        match offs {
            Ok(o) => json!({ "tbl": tbl, "items": items, "exhausted": ex, "offs": o }),
            Err(_) => json!({ "tbl": tbl, "items": items, "exhausted": ex, "offs": [], "offs_panic": true }),
        }
    }
}

fn emit_steps(ctx: &mut Ctx, m: Value, cap: u64) {
    let h = horizon(&m, cap);
    let inp = json!({ "m": m, "H": h, "tags": gen::tags(&m) });
    ctx.call("steps", inp, steps_call);
}

pub fn demand_tree(rng: &mut rand::rngs::StdRng, depth: u32, o: &gen::Opts, cmax: u64) -> Value {
    if depth == 0 || rng.gen_bool(0.4) {
        return json!({"k": "rbf", "a": gen::arrival(rng, 1, o), "c": gen::cost(rng, cmax, false)});
    }
    match rng.gen_range(0..4) {
        0 | 1 => {
            let n = rng.gen_range(1..=3);
            let parts: Vec<Value> = (0..n).map(|_| demand_tree(rng, depth - 1, o, cmax)).collect();
            json!({"k": "agg", "of": parts})
        }
        2 => {
            let n = rng.gen_range(1..=3);
            let parts: Vec<Value> = (0..n).map(|_| demand_tree(rng, depth - 1, o, cmax)).collect();
            json!({"k": "dslice", "of": parts})
        }
        _ => {
            let w = ["box", "rc", "ref", "min", "min"][rng.gen_range(0..5)];
            json!({"k": "wrap", "w": w, "of": demand_tree(rng, depth - 1, o, cmax)})
        }
    }
}

pub fn demand_span(v: &Value) -> u64 {
    match kind(v) {
        "rbf" => gen::span(&v["a"]),
        "wrap" => demand_span(&v["of"]),
        _ => v["of"].as_array().unwrap().iter().map(demand_span).max().unwrap_or(4),
    }
}

pub fn demand_tags(v: &Value) -> Vec<String> {
    let mut t: Vec<String> = match kind(v) {
        "rbf" => gen::tags(&v["a"]),
        "wrap" => demand_tags(&v["of"]),
        _ => v["of"].as_array().unwrap().iter().flat_map(demand_tags).collect(),
    };
    t.sort();
    t.dedup();
    t
}

pub fn run_steps(ctx: &mut Ctx) {
    let (tmax, cap) = if ctx.thorough { (12, 300) } else { (7, 140) };
    // enumerated core: every sporadic incl. jitter > period and jitter = kT, kT-1
    for t in 1..=tmax {
        emit_steps(ctx, json!({"k": "periodic", "T": t}), cap);
        for j in 0..=(3 * t + 1) {
            let sp = json!({"k": "sporadic", "T": t, "J": j});
            emit_steps(ctx, sp.clone(), cap);
            if j <= t + 1 {
                emit_steps(ctx, json!({"k": "jit", "J": t - 1 + j % 3, "of": sp.clone()}), cap);
                emit_steps(ctx, json!({"k": "prop", "J": j, "of": sp.clone()}), cap);
                emit_steps(ctx, json!({"k": "sum", "a": sp.clone(), "b": {"k": "periodic", "T": (t % 5) + 1}}), cap);
            }
        }
    }
    // pairs of periodic components (common steps)
    for t1 in 1..=tmax.min(8) {
        for t2 in t1..=tmax.min(8) {
            let a = json!({"k": "periodic", "T": t1});
            let b = json!({"k": "sporadic", "T": t2, "J": t1 % 3});
            emit_steps(ctx, json!({"k": "sum", "a": a.clone(), "b": b.clone()}), cap);
            emit_steps(ctx, json!({"k": "vec", "of": [a.clone(), b.clone()]}), cap);
            emit_steps(ctx, json!({"k": "slice", "of": [a.clone(), b.clone(), a.clone()]}), cap);
            let inp = json!({ "dm": {"k": "agg", "of": [
                    {"k": "rbf", "a": a.clone(), "c": {"k": "scalar", "c": 1}},
                    {"k": "rbf", "a": b.clone(), "c": {"k": "scalar", "c": 2}}]},
                "H": (3 * (t1 * t2) + 4).min(cap), "tags": [] });
            ctx.call("steps", inp, steps_call);
        }
    }
    // curves
    let emax = if ctx.thorough { 8 } else { 5 };
    for a in 0..=emax {
        for b in a..=emax {
            for c in b..=emax {
                if c == 0 {
                    continue;
                }
                for dm in [vec![a, b, c], vec![b, c], vec![c]] {
                    if dm.len() == 2 && a != 0 || dm.len() == 1 && (a != 0 || b != 0) {
                        continue;
                    }
                    let cv = json!({"k": "curve", "d": dm});
                    emit_steps(ctx, cv.clone(), cap);
                    emit_steps(ctx, json!({"k": "xcurve", "of": cv.clone()}), cap);
                    emit_steps(ctx, json!({"k": "jit", "J": 1 + (a + b) % 3, "of": {"k": "xcurve", "of": cv}}), cap);
                }
            }
        }
    }
    emit_steps(ctx, json!({"k": "never"}), cap);
    emit_steps(ctx, json!({"k": "prop", "J": 2, "of": {"k": "never"}}), cap);
    emit_steps(ctx, json!({"k": "vec", "of": []}), cap);
    emit_steps(ctx, json!({"k": "acp", "h": 10, "steps": [[1, 1], [5, 2], [8, 3]]}), cap);
    emit_steps(ctx, json!({"k": "acp", "h": 10, "steps": [[3, 1], [5, 2]]}), cap);
    emit_steps(ctx, json!({"k": "user", "T": 4, "J": 5}), cap);
    let n = if ctx.thorough { 12000 } else { 900 };
    let tm = if ctx.thorough { 40 } else { 14 };
    for i in 0..n {
        let o = gen::Opts::all(tm);
        if i % 3 == 2 {
            let dm = demand_tree(&mut ctx.rng, 2, &o, 5);
            let h = (3 * demand_span(&dm) + 4).min(cap);
            let inp = json!({ "dm": dm, "H": h, "tags": demand_tags(&dm) });
            ctx.call("steps", inp, steps_call);
        } else {
            let m = gen::arrival(&mut ctx.rng, 2, &o);
            emit_steps(ctx, m, cap);
        }
    }
}
