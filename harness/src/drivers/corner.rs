//! C20: corner cases of the well-formed input domain for every public analysis
//! (empty interference, Never, zero blocking, limit = 1, D < C, subchain =
//! whole workload, budget = period, ...).  The same inputs are run by a dev
//! and by a release build of the harness; TLC compares the two traces.

use rand::Rng;
use serde_json::{json, Value};

use crate::drivers::ros2::call_ros2;
use crate::drivers::rta::{call_rta, POLICIES};
use crate::Ctx;

fn task(a: Value, c: u64, dl: u64) -> Value {
    json!({"a": a, "c": {"k": "scalar", "c": c}, "C": c, "D": dl, "seg": c.max(1), "last": c.max(1)})
}

fn rbf(a: &Value, c: u64) -> Value {
    json!({"dm": {"k": "rbf", "a": a, "c": {"k": "scalar", "c": c}}})
}

fn collect_arrivals(v: &Value, out: &mut Vec<String>) {
    match v {
        Value::Object(m) => {
            for (k, x) in m {
                if k == "a" && x.is_object() && x.get("k").is_some() {
                    out.extend(crate::gen::tags(x));
                    if crate::gen::is_empty_model(x) {
                        out.push("empty_model".into());
                    }
                } else {
                    collect_arrivals(x, out);
                }
            }
        }
        Value::Array(a) => {
            for x in a {
                collect_arrivals(x, out);
            }
        }
        _ => {}
    }
}

fn tagged(mut inp: Value) -> Value {
    let mut t = vec![];
    collect_arrivals(&inp, &mut t);
    t.sort();
    t.dedup();
    inp["tags"] = json!(t);
    inp
}

pub fn run(ctx: &mut Ctx) {
    let arrs = vec![
        json!({"k": "never"}),
        json!({"k": "periodic", "T": 1}),
        json!({"k": "periodic", "T": 5}),
        json!({"k": "sporadic", "T": 3, "J": 7}),
        json!({"k": "sporadic", "T": 4, "J": 4}),
        json!({"k": "curve", "d": [0, 0, 5]}),
        json!({"k": "xcurve", "of": {"k": "curve", "d": [1, 2, 9]}}),
        json!({"k": "xcurve", "of": {"k": "curve", "d": [4]}}),
        json!({"k": "vec", "of": []}),
        json!({"k": "prop", "J": 3, "of": {"k": "never"}}),
        json!({"k": "jit", "J": 2, "of": {"k": "periodic", "T": 4}}),
        json!({"k": "acp", "h": 10, "steps": [[1, 1], [5, 2]]}),
        json!({"k": "acp", "h": 10, "steps": [[3, 1]]}),
        json!({"k": "acp_from", "h": 12, "of": {"k": "never"}}),
    ];
    // dedicated-processor analyses: every policy x tua x (no others | one other) x limits x blocking
    for p in POLICIES.iter() {
        for (ai, a) in arrs.iter().enumerate() {
            for (bi, b) in arrs.iter().enumerate() {
                if (ai * 7 + bi * 3) % 5 > 1 && !ctx.thorough {
                    continue;
                }
                for (c, dl) in [(1u64, 1u64), (3, 2), (2, 9)] {
                    for lim in [1u64, 2, 10, 50] {
                        for blocking in [0u64, 2] {
                            let tua = task(a.clone(), c, dl);
                            let other = task(b.clone(), 2, 4);
                            for others in [vec![], vec![other.clone()], vec![other.clone(), task(arrs[2].clone(), 1, 1)]] {
                                if (lim + blocking + others.len() as u64 + ai as u64) % 3 != 0 && !ctx.thorough {
                                    continue;
                                }
                                let inp = if *p == "fifo" {
                                    let mut all = others.clone();
                                    all.push(tua.clone());
                                    json!({"policy": p, "lim": lim, "tua": {"C": 0}, "others": all, "B": 0})
                                } else {
                                    json!({"policy": p, "lim": lim, "tua": tua, "others": others, "B": blocking})
                                };
                                ctx.call("rta_corner", tagged(inp), call_rta);
                            }
                        }
                    }
                }
            }
        }
    }
    // ROS 2 analyses
    let sups = vec![
        json!({"k": "dedicated"}),
        json!({"k": "periodic", "Q": 3, "P": 3}),
        json!({"k": "periodic", "Q": 1, "P": 4}),
        json!({"k": "constrained", "Q": 2, "D": 2, "P": 5}),
        json!({"k": "constrained", "Q": 2, "D": 5, "P": 5}),
    ];
    for sup in &sups {
        for (ai, a) in arrs.iter().enumerate() {
            for lim in [1u64, 3, 40] {
                let b = &arrs[(ai + 3) % arrs.len()];
                ctx.call("ros2_corner", tagged(json!({"op": "ros2_es", "supply": sup, "lim": lim, "own": rbf(a, 2)})), call_ros2);
                ctx.call("ros2_corner", tagged(json!({"op": "ros2_timer", "supply": sup, "lim": lim, "own": rbf(a, 1),
                                               "hp": {"dm": {"k": "agg", "of": []}}, "B": 0})), call_ros2);
                ctx.call("ros2_corner", tagged(json!({"op": "ros2_timer", "supply": sup, "lim": lim, "own": rbf(a, 2), "hp": rbf(b, 1), "B": 3})), call_ros2);
                ctx.call("ros2_corner", tagged(json!({"op": "ros2_pp", "supply": sup, "lim": lim, "own": rbf(a, 2), "others": rbf(b, 1)})), call_ros2);
                ctx.call("ros2_corner", tagged(json!({"op": "ros2_chain", "supply": sup, "lim": lim, "last": rbf(a, 2), "prefix": rbf(a, 1),
                                               "full": rbf(a, 3), "others": rbf(b, 2)})), call_ros2);
                // rr / bw: singleton, whole workload as subchain, all kinds
                for kinds in [vec!["timer"], vec!["unknown"], vec!["polled", "timer"], vec!["es", "polled", "unknown"]] {
                    let wl: Vec<Value> = kinds
                        .iter()
                        .enumerate()
                        .map(|(j, t)| {
                            let aa = if j == 0 { a.clone() } else { arrs[(ai + j) % arrs.len()].clone() };
                            json!({"t": t, "p": j as i64, "R": 2 + j as u64, "a": aa, "c": {"k": "scalar", "c": 1 + j as u64}})
                        })
                        .collect();
                    let whole: Vec<u64> = (1..=wl.len() as u64).rev().collect();
                    for op in ["ros2_rr", "ros2_bw"] {
                        if ctx.rng.gen_bool(0.5) && !ctx.thorough {
                            continue;
                        }
                        ctx.call("ros2_corner", tagged(json!({"op": op, "supply": sup, "lim": lim, "workload": wl, "sub": [1]})), call_ros2);
                        ctx.call("ros2_corner", tagged(json!({"op": op, "supply": sup, "lim": lim, "workload": wl, "sub": whole})), call_ros2);
                    }
                }
            }
        }
    }
}
