//! C14 (tables) and C16 (request-bound functions).

use rand::Rng;
use serde_json::{json, Value};

use crate::describe::*;
use crate::drivers::arrival::{demand_span, demand_tags, demand_tree};
use crate::gen;
use crate::outcome::*;
use crate::Ctx;

fn cost_call(inp: &Value) -> Value {
    let cm = build_cost(&inp["c"]);
    let n = u(&inp["N"]) as usize;
    let cost: Vec<u64> = (0..=n).map(|k| u64::from(cm.cost_of_jobs(k))).collect();
    let items: Vec<u64> = cm.job_cost_iter().take(n).map(u64::from).collect();
    let least: Vec<u64> = (0..=n).map(|k| u64::from(cm.least_wcet(k))).collect();
    json!({ "cost": cost, "items": items, "least": least })
}

fn emit_cost(ctx: &mut Ctx, c: Value, n: u64) {
    // the cumulative prefix the description starts from (for the closure floor)
    let w = match kind(&c) {
        "wcurve" => c["w"].clone(),
        "wxcurve" if kind(&c["of"]) == "wcurve" => c["of"]["w"].clone(),
        _ => json!([]),
    };
    let inp = json!({ "c": c, "N": n, "w": w });
    ctx.call("cost", inp, cost_call);
}

fn cost_trace_call(inp: &Value) -> Value {
    let c = response_time_analysis::wcet::Curve::from_trace(us(&inp["costs"]).into_iter().map(s), u(&inp["n"]) as usize);
    let n = u(&inp["N"]) as usize;
    use response_time_analysis::wcet::JobCostModel;
    let cost: Vec<u64> = (0..=n).map(|k| u64::from(c.cost_of_jobs(k))).collect();
    json!({ "cost": cost })
}

fn cost_ext_call(inp: &Value) -> Value {
    use response_time_analysis::wcet::JobCostModel;
    let orig = if inp.get("costs").is_some() {
        response_time_analysis::wcet::Curve::from_trace(us(&inp["costs"]).into_iter().map(s), u(&inp["maxn"]) as usize)
    } else {
        response_time_analysis::wcet::Curve::new(us(&inp["w"]).into_iter().map(s).collect())
    };
    let mut ext = orig.clone();
    ext.extrapolate(u(&inp["n"]) as usize);
    let n = u(&inp["N"]) as usize;
    let o: Vec<u64> = (0..=n).map(|k| u64::from(orig.cost_of_jobs(k))).collect();
    let e: Vec<u64> = (0..=n).map(|k| u64::from(ext.cost_of_jobs(k))).collect();
    json!({ "orig": o, "ext": e })
}

/// all cost traces of length <= lmax over 1..=cmax
fn all_traces(lmax: usize, cmax: u64) -> Vec<Vec<u64>> {
    let mut out = vec![];
    let mut stack: Vec<Vec<u64>> = vec![vec![]];
    while let Some(v) = stack.pop() {
        if !v.is_empty() {
            out.push(v.clone());
        }
        if v.len() < lmax {
            for c in 1..=cmax {
                let mut w = v.clone();
                w.push(c);
                stack.push(w);
            }
        }
    }
    out
}

fn max_run(tr: &[u64], k: usize) -> u64 {
    (0..=tr.len() - k).map(|i| tr[i..i + k].iter().sum::<u64>()).max().unwrap()
}

pub fn run_cost_trace(ctx: &mut Ctx) {
    // from_trace: every trace (TraceGen box) x every max_n
    let (lmax, cmax) = if ctx.thorough { (7, 3) } else { (5, 3) };
    for tr in all_traces(lmax, cmax) {
        for n in 1..=tr.len() + 1 {
            let inp = json!({ "costs": tr, "n": n, "N": 2 * tr.len() + 1 });
            ctx.call("cost_trace", inp, cost_trace_call);
        }
    }
    let nr = if ctx.thorough { 3000 } else { 300 };
    for _ in 0..nr {
        let l = ctx.rng.gen_range(2..=12);
        let tr: Vec<u64> = (0..l).map(|_| ctx.rng.gen_range(1..=9)).collect();
        let n = ctx.rng.gen_range(1..=l + 1);
        let inp = json!({ "costs": tr, "n": n, "N": 2 * l + 1 });
        ctx.call("cost_trace", inp, cost_trace_call);
        // extrapolation of the inferred prefix
        let maxn = ctx.rng.gen_range(3..=l.max(3));
        let k = maxn.min(l);
        let w: Vec<u64> = (1..=k).map(|j| max_run(&tr, j)).collect();
        let inp = json!({ "costs": tr, "maxn": maxn, "w": w, "n": ctx.rng.gen_range(1..=3 * l), "N": 3 * l + 2,
                          "tags": ["from_trace"] });
        ctx.call("cost_ext", inp, cost_ext_call);
        let w = gen::cost_prefix(&mut ctx.rng, 6);
        let wl = w.len();
        let inp = json!({ "w": w, "n": ctx.rng.gen_range(0..=4 * wl + 2), "N": 4 * wl + 4, "tags": [] });
        ctx.call("cost_ext", inp, cost_ext_call);
    }
}

pub fn run_cost(ctx: &mut Ctx) {
    let cmax = if ctx.thorough { 9 } else { 5 };
    for c in 1..=cmax {
        emit_cost(ctx, json!({"k": "scalar", "c": c}), 12);
    }
    // all multiframe vectors of length <= 3 (thorough: 4)
    let lmax = if ctx.thorough { 4 } else { 3 };
    let mut stack: Vec<Vec<u64>> = vec![vec![]];
    while let Some(v) = stack.pop() {
        if !v.is_empty() {
            emit_cost(ctx, json!({"k": "multiframe", "cs": v.clone()}), 3 * v.len() as u64 + 2);
        }
        if v.len() < lmax {
            for c in 1..=cmax.min(4) {
                let mut w = v.clone();
                w.push(c);
                stack.push(w);
            }
        }
    }
    let n = if ctx.thorough { 4000 } else { 400 };
    for _ in 0..n {
        let w = gen::cost_prefix(&mut ctx.rng, cmax);
        let nn = 3 * w.len() as u64 + 3;
        emit_cost(ctx, json!({"k": "wcurve", "w": w.clone()}), nn);
        emit_cost(ctx, json!({"k": "wxcurve", "of": {"k": "wcurve", "w": w}}), nn);
        let c = gen::cost(&mut ctx.rng, cmax, false);
        emit_cost(ctx, c, 10);
    }
}

// ---------------------------------------------------------------------------
fn node_tables(rb: &RB, h: u64, deltas: &[u64], nmax: usize) -> Value {
    let sn: Vec<u64> = (0..=h).map(|x| u64::from(rb.service_needed(d(x)))).collect();
    let mut byn = vec![];
    for &dl in deltas {
        let row: Vec<u64> = (0..=nmax).map(|n| u64::from(rb.service_needed_by_n_jobs(d(dl), n))).collect();
        byn.push(row);
    }
    json!({ "sn": sn, "byn": byn })
}

fn demand_call(inp: &Value) -> Value {
    let dm = &inp["dm"];
    let h = u(&inp["H"]);
    let deltas = us(&inp["deltas"]);
    let nmax = u(&inp["N"]) as usize;
    let rb = build_demand(dm);
    let mut out = node_tables(&rb, h, &deltas, nmax);
    let mut jsum = vec![];
    let mut njobs = vec![];
    let mut minjob = vec![];
    let mut lw = vec![];
    for x in 0..=h {
        let items: Vec<u64> = rb.job_cost_iter(d(x)).map(u64::from).collect();
        jsum.push(items.iter().sum::<u64>());
        njobs.push(items.len() as u64);
        minjob.push(items.iter().copied().min().unwrap_or(0));
        lw.push(u64::from(rb.least_wcet_in_interval(d(x))));
    }
    let mut jobs = vec![];
    for &dl in &deltas {
        let mut items: Vec<u64> = rb.job_cost_iter(d(dl)).map(u64::from).collect();
        items.sort_unstable_by(|a, b| b.cmp(a));
        jobs.push(items);
    }
    out["jsum"] = json!(jsum);
    out["njobs"] = json!(njobs);
    out["minjob"] = json!(minjob);
    out["lw"] = json!(lw);
    out["jobs"] = json!(jobs);
    match kind(dm) {
        "rbf" => {
            let ab = build_arrival(&dm["a"]);
            let cm = build_cost(&dm["c"]);
            let eta: Vec<u64> = (0..=h).map(|x| ab.number_arrivals(d(x)) as u64).collect();
            let mx = *eta.iter().max().unwrap() as usize;
            let cost: Vec<u64> = (0..=mx).map(|k| u64::from(cm.cost_of_jobs(k))).collect();
            out["eta"] = json!(eta);
            out["cost"] = json!(cost);
        }
        "agg" | "dslice" => {
            let kids: Vec<Value> = dm["of"]
                .as_array()
                .unwrap()
                .iter()
                .map(|k| node_tables(&build_demand(k), h, &deltas, nmax))
                .collect();
            out["kids"] = json!(kids);
            let arb = build_agg(dm);
            let mut bync = vec![];
            for &dl in &deltas {
                let row: Vec<u64> = (0..=nmax)
                    .map(|n| u64::from(arb.service_needed_by_n_jobs_per_component(d(dl), n)))
                    .collect();
                bync.push(row);
            }
            out["bync"] = json!(bync);
        }
        _ => {}
    }
    out
}

fn emit_nodes(ctx: &mut Ctx, dm: &Value, cap: u64) {
    let h = (2 * demand_span(dm) + 3).min(cap);
    let deltas: Vec<u64> = vec![0, 1, h / 3, h / 2, h];
    let inp = json!({ "dm": dm, "H": h, "deltas": deltas, "N": 8, "tags": demand_tags(dm) });
    ctx.call("demand", inp, demand_call);
    match kind(dm) {
        "agg" | "dslice" => {
            for k in dm["of"].as_array().unwrap() {
                emit_nodes(ctx, k, cap);
            }
        }
        "wrap" => emit_nodes(ctx, &dm["of"], cap),
        _ => {}
    }
}

pub fn run_demand(ctx: &mut Ctx) {
    let n = if ctx.thorough { 5000 } else { 450 };
    let tm = if ctx.thorough { 30 } else { 12 };
    let cap = if ctx.thorough { 120 } else { 60 };
    // fixed core: every cost kind x a few arrival kinds
    let arrs = [
        json!({"k": "periodic", "T": 3}),
        json!({"k": "sporadic", "T": 4, "J": 9}),
        json!({"k": "xcurve", "of": {"k": "curve", "d": [1, 2, 7]}}),
        json!({"k": "never"}),
    ];
    let costs = [
        json!({"k": "scalar", "c": 2}),
        json!({"k": "multiframe", "cs": [3, 1, 2]}),
        json!({"k": "wcurve", "w": [4, 5, 7]}),
        json!({"k": "wxcurve", "of": {"k": "wcurve", "w": [4, 5, 7]}}),
    ];
    for a in &arrs {
        for c in &costs {
            let leaf = json!({"k": "rbf", "a": a, "c": c});
            emit_nodes(ctx, &leaf, cap);
            for w in ["box", "rc", "ref"] {
                emit_nodes(ctx, &json!({"k": "wrap", "w": w, "of": leaf.clone()}), cap);
            }
        }
    }
    emit_nodes(ctx, &json!({"k": "agg", "of": []}), cap);
    for _ in 0..n {
        let o = gen::Opts { allow_derived: ctx.rng.gen_bool(0.2), ..gen::Opts::all(tm) };
        let dm = demand_tree(&mut ctx.rng, 2, &o, 5);
        emit_nodes(ctx, &dm, cap);
    }
}
