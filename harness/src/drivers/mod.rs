pub mod arrival;
pub mod cost;
pub mod supply;
pub mod rta;
pub mod systems;
pub mod agree;
pub mod harden;
pub mod ros2;
