pub mod supply;
