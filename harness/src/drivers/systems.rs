//! C01 / C02 / C03 / C18 (R1): task systems with the bounds claimed by the
//! real analyses, composed as the properties prescribe, written as a batch
//! for the scheduler world model (spec/Sched.tla).

use rand::Rng;
use serde_json::{json, Value};

use crate::describe::*;
use crate::drivers::rta::call_rta;
use crate::outcome::*;
use crate::Ctx;

fn eta_at(inp: &Value) -> Value {
    let ab = build_arrival(&inp["a"]);
    json!(ab.number_arrivals(d(u(&inp["delta"]))) as u64)
}

/// arrival automaton description for Sched.tla
fn arr_of(a: &Value) -> Value {
    match kind(a) {
        "periodic" => json!({"k": "sporadic", "T": a["T"], "J": 0}),
        "sporadic" => json!({"k": "sporadic", "T": a["T"], "J": a["J"]}),
        "curve" => json!({"k": "dmin", "d": a["d"]}),
        "xcurve" => json!({"k": "dmin", "d": a["of"]["d"]}),
        k => panic!("harness: no arrival automaton for {}", k),
    }
}

fn max_np(variant: &str, t: &Value) -> u64 {
    match variant {
        "np" => u(&t["C"]),
        "lp" => *us(&t["segs"]).iter().max().unwrap(),
        "fnp" => u(&t["fl"]),
        _ => 1,
    }
}

/// the cost model handed to the analyses: a cumulative-cost curve where the task has one and the
/// variant's API accepts general request bounds (fully preemptive, floating NP, FIFO), else the scalar WCET
fn cost_of(t: &Value, variant: &str) -> Value {
    let w = us(&t["w"]);
    if !w.is_empty() && matches!(variant, "p" | "fnp") {
        if u(&t["C"]) % 2 == 0 {
            json!({"k": "wcurve", "w": w})
        } else {
            json!({"k": "wxcurve", "of": {"k": "wcurve", "w": w}})
        }
    } else {
        json!({"k": "scalar", "c": t["C"]})
    }
}

fn task_inp(t: &Value, variant: &str) -> Value {
    json!({"a": t["a"], "c": cost_of(t, variant), "C": t["C"], "D": t["D"],
           "seg": max_np(variant, t), "last": us(&t["segs"]).last().copied().unwrap()})
}

/// Compute the claims of one (task set, policy family, variant) and emit the Sched.tla record.
fn emit_system(ctx: &mut Ctx, id: u64, tasks: &[Value], family: &str, variant: &str, lim: u64, exact_only: bool) {
    let n = tasks.len();
    let policy = format!("{}_{}", family, variant);
    let mut claims: Vec<i64> = vec![];
    let mut calls = vec![];
    let mut supply = json!({"k": "dedicated"});
    if family == "es" {
        // event sources = a FIFO server under a reservation (C04): claim from rta_event_source
        supply = crate::drivers::ros2::gen_supply(&mut ctx.rng, if ctx.thorough { 6 } else { 4 });
        let parts: Vec<Value> = tasks.iter().map(|t| json!({"k": "rbf", "a": t["a"], "c": cost_of(t, "p")})).collect();
        let own = match crate::drivers::ros2::demand_rec(&json!({"k": "agg", "of": parts}), 2 * lim + 4, ctx.watchdog_ms) {
            Some(o) => o,
            None => return,
        };
        let inp = json!({"op": "ros2_es", "supply": supply, "lim": lim, "own": own});
        let out = guarded(&inp, ctx.watchdog_ms, crate::drivers::ros2::call_ros2);
        let r = out.get("ok").and_then(|x| x.as_i64()).unwrap_or(-1);
        calls.push(json!({"op": "ros2_es", "out": out}));
        claims = vec![r; n];
    } else if family == "fifo" {
        let others: Vec<Value> = tasks.iter().map(|t| task_inp(t, "p")).collect();
        let container = ["agg", "slice", "boxed"][(id % 3) as usize];
        let inp = json!({"policy": "fifo", "lim": lim, "tua": {}, "others": others, "B": 0, "container": container});
        let out = guarded(&inp, ctx.watchdog_ms, call_rta);
        let r = out.get("ok").and_then(|x| x.as_i64()).unwrap_or(-1);
        calls.push(json!({"in": inp, "out": out}));
        claims = vec![r; n];
    } else {
        for i in 0..n {
            let tua = task_inp(&tasks[i], variant);
            let (others, b): (Vec<Value>, u64) = if family == "fp" {
                let pi = u(&tasks[i]["prio"]);
                let hep: Vec<Value> = (0..n)
                    .filter(|&j| j != i && u(&tasks[j]["prio"]) <= pi)
                    .map(|j| task_inp(&tasks[j], variant))
                    .collect();
                let blocking = (0..n)
                    .filter(|&j| u(&tasks[j]["prio"]) > pi)
                    .map(|j| max_np(variant, &tasks[j]))
                    .max()
                    .unwrap_or(0)
                    .saturating_sub(1);
                (hep, if variant == "p" { 0 } else { blocking })
            } else {
                ((0..n).filter(|&j| j != i).map(|j| task_inp(&tasks[j], variant)).collect(), 0)
            };
            let inp = json!({"policy": policy, "lim": lim, "tua": tua, "others": others, "B": b});
            let out = guarded(&inp, ctx.watchdog_ms, call_rta);
            claims.push(out.get("ok").and_then(|x| x.as_i64()).unwrap_or(-1));
            calls.push(json!({"in": inp, "out": out}));
        }
    }
    let nclaims = claims.iter().filter(|r| **r >= 0).count();
    if nclaims == 0 || (family != "fp" && nclaims < n) {
        return; // no claim to refute / ages decide priorities: all tasks need a claim
    }
    let mut ts = vec![];
    for i in 0..n {
        let t = &tasks[i];
        let c = u(&t["C"]);
        let segs: Vec<u64> = match variant {
            "np" => vec![c],
            "lp" => us(&t["segs"]),
            _ => vec![1; c as usize],
        };
        let fl = if variant == "fnp" { u(&t["fl"]) } else { 0 };
        let cap = if claims[i] >= 0 {
            let e = guarded(&json!({"a": t["a"], "delta": claims[i]}), ctx.watchdog_ms, eta_at);
            e.as_u64().unwrap_or(0) + 1
        } else {
            1
        };
        let w: Vec<u64> = if matches!(variant, "p" | "fnp") { us(&t["w"]) } else { vec![] };
        ts.push(json!({"arr": arr_of(&t["a"]), "C": c, "segs": segs, "fl": fl, "prio": t["prio"], "D": t["D"],
                       "R": claims[i], "cap": cap, "w": w}));
    }
    // keep individual state spaces tractable (stated in the evidence): bounded pending-job backlog
    let (rmax, backlog, budget) = if ctx.thorough { (45, 7, 6.0e6) } else { (22, 5, 1.5e6) };
    let total_cap: u64 = ts.iter().map(|t| u(&t["cap"]) - 1).sum();
    let hist_states: f64 = ts.iter().map(|t| (u(&t["C"]) as f64).powf(us(&t["w"]).len().saturating_sub(1) as f64)).product();
    let est = crate::drivers::ros2sys::state_estimate(&ts, &supply) * (ts.iter().map(|t| u(&t["C"])).sum::<u64>() as f64) * hist_states;
    // hand-picked small systems are explored whatever the library claims for them (a change that inflates their
    // bounds must not make them disappear from the batch); a generous absolute ceiling still protects the run
    let forced = tasks[0].get("force").is_some() && claims.iter().all(|r| *r <= 2 * rmax) && total_cap <= 2 * backlog;
    if !forced && (claims.iter().any(|r| *r > rmax) || total_cap > backlog || est > budget) {
        return;
    }
    let nontrivial = (0..n).any(|i| claims[i] > u(&tasks[i]["C"]) as i64);
    let model_policy = if family == "es" { "fifo" } else { family };
    let rec = json!({"id": id, "policy": model_policy, "variant": variant, "tasks": ts, "supply": supply,
                     "lim": lim, "src": tasks, "calls": calls, "nontrivial": nontrivial, "exact": exact_only});
    ctx.sink.raw(&rec);
}

fn segs_of(rng: &mut rand::rngs::StdRng, c: u64) -> Vec<u64> {
    // a random composition of c into non-empty segments
    let mut segs = vec![];
    let mut left = c;
    while left > 0 {
        let s = rng.gen_range(1..=left);
        segs.push(s);
        left -= s;
    }
    segs
}

fn gen_arrival_small(rng: &mut rand::rngs::StdRng, tmax: u64, exact_only: bool) -> Value {
    let t = rng.gen_range(2..=tmax);
    match rng.gen_range(0..12) {
        0..=2 => json!({"k": "periodic", "T": t}),
        3..=5 => json!({"k": "sporadic", "T": t, "J": rng.gen_range(0..=t + 2)}),
        // jitter at and around multiples of the period (bursts)
        6 => {
            let t2 = rng.gen_range(2..=tmax.min(4));
            let k = rng.gen_range(1..=2u64);
            let j = (k * t2 + rng.gen_range(0..=2)).saturating_sub(1);
            json!({"k": "sporadic", "T": t2, "J": j})
        }
        7..=9 => {
            // auto-extrapolating prefixes; length 3 with a large middle entry makes the "equal halves" split matter
            let len = rng.gen_range(2..=3);
            let mut dm = crate::gen::dmin_prefix(rng, len, t, false);
            if len == 3 && rng.gen_bool(0.5) {
                dm[2] = dm[0] + dm[1];
            }
            json!({"k": "xcurve", "of": {"k": "curve", "d": dm}})
        }
        _ => {
            let len = rng.gen_range(1..=3);
            let dm = crate::gen::dmin_prefix(rng, len, t, false);
            if exact_only {
                json!({"k": "xcurve", "of": {"k": "curve", "d": dm}})
            } else {
                json!({"k": "curve", "d": dm})
            }
        }
    }
}

pub fn run(ctx: &mut Ctx) {
    let families: Vec<String> = ctx.arg("--families").unwrap_or("fp,edf,fifo".into()).split(',').map(|s| s.to_string()).collect();
    let exact_only = ctx.arg("--exact").is_some();
    let nsys: u64 = ctx.arg("--nsys").and_then(|s| s.parse().ok()).unwrap_or(if ctx.thorough { 1200 } else { 90 });
    let (tmax, cmax, nmax) = if ctx.thorough { (10, 4, 4) } else { (7, 3, 3) };
    let lim = if ctx.thorough { 60 } else { 40 };
    let mut id = 0u64;
    // fixed core: all 2-task systems of a tiny box (exhaustive)
    let mut core = vec![];
    for t1 in [2u64, 3, 5] {
        for c1 in 1..=2u64 {
            for j1 in [0u64, 2] {
                for t2 in [3u64, 4] {
                    for c2 in 1..=2u64 {
                        core.push(vec![
                            json!({"a": {"k": "sporadic", "T": t1, "J": j1}, "C": c1, "prio": 1, "D": t1 + 1, "segs": [c1], "fl": c1, "w": []}),
                            json!({"a": {"k": "sporadic", "T": t2, "J": 1}, "C": c2, "prio": 2, "D": t2, "segs": segs_of(&mut ctx.rng, c2), "fl": 1, "w": []}),
                        ]);
                    }
                }
            }
        }
    }
    if exact_only {
        // tightness runs: release jitter of exactly two and three periods (bursts of three / four jobs), where an
        // over-count by one job is still a safe bound but is no longer attained
        for (t1, k) in [(2u64, 2u64), (3, 2), (2, 3)] {
            for c2 in 1..=2u64 {
                core.push(vec![
                    json!({"a": {"k": "sporadic", "T": t1, "J": k * t1}, "C": 1, "prio": 1, "D": t1 + 1, "segs": [1], "fl": 1, "w": [], "force": true}),
                    json!({"a": {"k": "sporadic", "T": 9, "J": 0}, "C": c2, "prio": 2, "D": 9, "segs": [c2], "fl": 1, "w": []}),
                ]);
            }
        }
    }
    if families.iter().any(|f| f == "edf") && !exact_only {
        // EDF core: a rare task with a long relative deadline next to a frequent one with a *shorter* deadline. The worst
        // case of the rare task is then at an offset A = k * T_o + D_o - D > 0 (a later job of the frequent task whose
        // absolute deadline meets the analysed job's), which only the deadline-shifted part of the search space reaches
        for (c1, d1) in [(2u64, 7u64), (2, 9), (3, 7), (3, 9)] {
            for t2 in [4u64, 5] {
                for (c2, d2) in [(2u64, 2u64), (2, 4), (3, 3), (3, 4)] {
                    core.push(vec![
                        json!({"a": {"k": "sporadic", "T": 14, "J": 0}, "C": c1, "prio": 2, "D": d1, "segs": [1, c1 - 1], "fl": 1, "w": []}),
                        json!({"a": {"k": "sporadic", "T": t2, "J": 0}, "C": c2, "prio": 1, "D": d2, "segs": [c2], "fl": c2, "w": []}),
                    ]);
                }
            }
        }
    }
    let mut sets: Vec<Vec<Value>> = if ctx.arg("--no-core").is_some() { vec![] } else { core };
    for _ in 0..nsys {
        let n = ctx.rng.gen_range(2..=nmax);
        let mut tasks = vec![];
        for _ in 0..n {
            let a = gen_arrival_small(&mut ctx.rng, tmax, exact_only);
            // a third of the tasks (outside the tightness runs) have a cumulative-cost curve instead of a scalar WCET:
            // any n consecutive jobs cost at most w[n]; the single-job WCET is w[1]
            let w: Vec<u64> = if !exact_only && ctx.rng.gen_bool(0.33) {
                // short prefixes only: the cost automaton remembers Len(w) - 1 job costs per task
                let mut w = crate::gen::cost_prefix(&mut ctx.rng, cmax);
                w.truncate(3);
                w
            } else {
                vec![]
            };
            let c = if w.is_empty() { ctx.rng.gen_range(1..=cmax) } else { w[0] };
            let segs = segs_of(&mut ctx.rng, c);
            let tt = crate::gen::span(&a).max(2);
            tasks.push(json!({"a": a, "C": c, "prio": ctx.rng.gen_range(1..=n as u64), "D": ctx.rng.gen_range(1..=2 * tt + 2),
                              "segs": segs, "fl": ctx.rng.gen_range(1..=c), "w": w}));
        }
        sets.push(tasks);
    }
    for tasks in sets {
        for fam in &families {
            if fam == "fifo" || fam == "es" {
                id += 1;
                emit_system(ctx, id, &tasks, fam, "p", lim, exact_only);
            } else {
                for v in ["p", "np", "lp", "fnp"] {
                    if exact_only && (v == "lp" || v == "fnp") {
                        continue; // C18 speaks of the fully preemptive and the non-preemptive analyses
                    }
                    id += 1;
                    emit_system(ctx, id, &tasks, fam, v, lim, exact_only);
                }
            }
        }
    }
}
