//! C13 (d) / C14: histories of queries on shared ExtrapolatingCurve clones
//! (arrival and wcet), incl. live iterators, replayed later through the
//! CurveCache state machine (spec/trace/TraceCache.tla).

use std::panic::{catch_unwind, AssertUnwindSafe};

use rand::rngs::StdRng;
use rand::{Rng, SeedableRng};
use response_time_analysis::arrival::{self, ArrivalBound};
use response_time_analysis::time::Duration;
use response_time_analysis::wcet::{self, JobCostModel};
use serde_json::{json, Value};

use crate::describe::*;
use crate::gen;
use crate::outcome::guarded;
use crate::Ctx;

/// A history is a list of abstract operations; it is either generated here
/// (seeded) or read from a file of TLC-generated behaviours.
/// ops: ["q", clone, arg] | ["least", clone, arg] | ["it_new", clone] | ["it_next", it]
fn run_history(inp: &Value) -> Value {
    let kind_s = inp["kind"].as_str().unwrap();
    let prefix = us(&inp["d"]);
    let ops = inp["ops"].as_array().unwrap();
    let mut out = vec![json!({"op": "new", "kind": kind_s, "d": prefix})];
    if kind_s == "arrival" {
        let base = arrival::ExtrapolatingCurve::new(arrival::Curve::new(prefix.iter().map(|x| d(*x)).collect()));
        let clones: Vec<arrival::ExtrapolatingCurve> = (0..3).map(|_| base.clone()).collect();
        let mut its: Vec<(Box<dyn Iterator<Item = Duration> + '_>, u64)> = vec![];
        for op in ops {
            let name = op[0].as_str().unwrap();
            match name {
                "q" => {
                    let c = &clones[u(&op[1]) as usize % 3];
                    let arg = u(&op[2]);
                    let r = catch_unwind(AssertUnwindSafe(|| c.number_arrivals(d(arg)) as i64)).unwrap_or(-1);
                    out.push(json!({"op": "q", "c": op[1], "arg": arg, "ans": r}));
                }
                "it_new" => {
                    let c = &clones[u(&op[1]) as usize % 3];
                    match catch_unwind(AssertUnwindSafe(|| c.steps_iter())) {
                        Ok(it) => {
                            its.push((it, 0));
                            out.push(json!({"op": "it_new", "c": op[1], "it": its.len(), "ans": 0}));
                        }
                        Err(_) => out.push(json!({"op": "it_new", "c": op[1], "it": its.len() + 1, "ans": -1})),
                    }
                }
                "it_next" => {
                    if its.is_empty() {
                        continue;
                    }
                    let i = u(&op[1]) as usize % its.len();
                    let (it, k) = &mut its[i];
                    *k += 1;
                    let r = catch_unwind(AssertUnwindSafe(|| it.next().map(|x| u64::from(x) as i64).unwrap_or(-2))).unwrap_or(-1);
                    out.push(json!({"op": "it_next", "it": i + 1, "k": *k, "ans": r}));
                }
                _ => {}
            }
        }
    } else {
        let base = wcet::ExtrapolatingCurve::new(wcet::Curve::new(prefix.iter().map(|x| s(*x)).collect()));
        let clones: Vec<wcet::ExtrapolatingCurve> = (0..3).map(|_| base.clone()).collect();
        let mut its: Vec<(Box<dyn Iterator<Item = response_time_analysis::time::Service> + '_>, u64)> = vec![];
        for op in ops {
            let name = op[0].as_str().unwrap();
            match name {
                "q" => {
                    let c = &clones[u(&op[1]) as usize % 3];
                    let arg = u(&op[2]);
                    let r = catch_unwind(AssertUnwindSafe(|| u64::from(c.cost_of_jobs(arg as usize)) as i64)).unwrap_or(-1);
                    out.push(json!({"op": "q", "c": op[1], "arg": arg, "ans": r}));
                }
                "least" => {
                    let c = &clones[u(&op[1]) as usize % 3];
                    let arg = u(&op[2]);
                    let r = catch_unwind(AssertUnwindSafe(|| u64::from(c.least_wcet(arg as usize)) as i64)).unwrap_or(-1);
                    out.push(json!({"op": "least", "c": op[1], "arg": arg, "ans": r}));
                }
                "it_new" => {
                    let c = &clones[u(&op[1]) as usize % 3];
                    match catch_unwind(AssertUnwindSafe(|| c.job_cost_iter())) {
                        Ok(it) => {
                            its.push((it, 0));
                            out.push(json!({"op": "it_new", "c": op[1], "it": its.len(), "ans": 0}));
                        }
                        Err(_) => out.push(json!({"op": "it_new", "c": op[1], "it": its.len() + 1, "ans": -1})),
                    }
                }
                "it_next" => {
                    if its.is_empty() {
                        continue;
                    }
                    let i = u(&op[1]) as usize % its.len();
                    let (it, k) = &mut its[i];
                    *k += 1;
                    let r = catch_unwind(AssertUnwindSafe(|| it.next().map(|x| u64::from(x) as i64).unwrap_or(-2))).unwrap_or(-1);
                    out.push(json!({"op": "it_next", "it": i + 1, "k": *k, "ans": r}));
                }
                _ => {}
            }
        }
    }
    json!(out)
}

fn random_ops(rng: &mut StdRng, kind_s: &str, n: usize, argmax: u64) -> Vec<Value> {
    let mut ops = vec![];
    let mut nit = 0u64;
    for _ in 0..n {
        let c = rng.gen_range(0..3u64);
        match rng.gen_range(0..10) {
            0..=3 => ops.push(json!(["q", c, rng.gen_range(0..=argmax)])),
            4 if kind_s == "wcet" => ops.push(json!(["least", c, rng.gen_range(0..=argmax)])),
            4 | 5 => {
                ops.push(json!(["it_new", c]));
                nit += 1;
            }
            _ => {
                if nit > 0 {
                    ops.push(json!(["it_next", rng.gen_range(0..nit)]));
                } else {
                    ops.push(json!(["q", c, rng.gen_range(0..=argmax)]));
                }
            }
        }
    }
    ops
}

fn emit(ctx: &mut Ctx, inp: Value) {
    let out = guarded(&inp, ctx.watchdog_ms, run_history);
    if let Some(evs) = out.as_array() {
        for e in evs {
            ctx.sink.raw(e);
        }
    } else {
        // the whole session died (hang / unexpected panic): record it as such
        ctx.sink.raw(&json!({"op": "new", "kind": inp["kind"], "d": inp["d"]}));
        ctx.sink.raw(&json!({"op": "q", "c": 0, "arg": 0, "ans": -1, "session_failed": out}));
    }
}

pub fn run(ctx: &mut Ctx) {
    let kind_s = ctx.arg("--kind").unwrap_or("arrival".into());
    // behaviours generated by TLC (spec -> impl), if given
    if let Some(path) = ctx.arg("--histories") {
        let text = std::fs::read_to_string(&path).expect("histories file");
        for line in text.lines().filter(|l| !l.trim().is_empty()) {
            let h: Value = serde_json::from_str(line).expect("history json");
            emit(ctx, h);
        }
        return;
    }
    let n = if ctx.thorough { 8000 } else { 700 };
    let mut rng = StdRng::seed_from_u64(ctx.seed ^ 0x5eed);
    for i in 0..n {
        let len = rng.gen_range(1..=4);
        let (prefix, argmax) = if kind_s == "arrival" {
            let zero = rng.gen_bool(0.15);
            let p = gen::dmin_prefix(&mut rng, len, 7, zero);
            let a = 3 * *p.last().unwrap() + 3;
            (p, a.min(60))
        } else {
            let p = gen::cost_prefix(&mut rng, 5);
            let a = 3 * p.len() as u64 + 4;
            (p, a)
        };
        let nops = if i % 5 == 0 { 30 } else { 12 };
        let ops = random_ops(&mut rng, &kind_s, nops, argmax);
        emit(ctx, json!({"kind": kind_s, "d": prefix, "ops": ops}));
    }
}
