//! C15: ApproximatedPoisson::number_arrivals / Poisson::arrival_probability.

use response_time_analysis::arrival::{ApproximatedPoisson, ArrivalBound, Poisson};
use serde_json::{json, Value};

use crate::describe::*;
use crate::Ctx;

fn quantiles_call(inp: &Value) -> Value {
    let r = us(&inp["rate"]);
    let e = us(&inp["eps"]);
    // two ways of constructing the same model
    let ap = if inp["via"].as_str() == Some("approximate") {
        Poisson { rate: r[0] as f64 / r[1] as f64 }.approximate(e[0] as f64 / e[1] as f64)
    } else {
        ApproximatedPoisson::new(r[0] as f64 / r[1] as f64, e[0] as f64 / e[1] as f64)
    };
    let n: Vec<u64> = match inp.get("jitter") {
        Some(j) => {
            let jit = ap.clone_with_jitter(d(u(j)));
            us(&inp["deltas"]).into_iter().map(|dl| jit.number_arrivals(d(dl)) as u64).collect()
        }
        None => us(&inp["deltas"]).into_iter().map(|dl| ap.number_arrivals(d(dl)) as u64).collect(),
    };
    json!({ "n": n })
}

fn pmf_call(inp: &Value) -> Value {
    let r = us(&inp["rate"]);
    let p = Poisson { rate: r[0] as f64 / r[1] as f64 };
    let k = u(&inp["K"]) as usize;
    let dl = d(u(&inp["delta"]));
    // recorded in units of 1e-5 (rounded); -1 if not finite
    let uu: Vec<i64> = (0..=k)
        .map(|j| {
            let x = p.arrival_probability(dl, j);
            if x.is_finite() { (x * 1e5).round() as i64 } else { -1 }
        })
        .collect();
    json!({ "u": uu })
}

pub fn run(ctx: &mut Ctx) {
    let rates = [[1u64, 4u64], [1, 2], [1, 1], [2, 1]];
    let epss = [[1u64, 10u64], [1, 20], [1, 100], [1, 1000]];
    // interval lengths: dense for small means, then up to mean 1000 (thorough: 2000)
    let maxmean = if ctx.thorough { 2000 } else { 1000 };
    for r in rates.iter() {
        for e in epss.iter() {
            let mut deltas: Vec<u64> = vec![0];
            let mut x = 1u64;
            while x * r[0] / r[1] <= maxmean {
                deltas.push(x);
                x = if x < 40 { x + 1 } else if x < 200 { x + 7 } else if x < 800 { x + 37 } else { x + 181 };
            }
            // one event per chunk of deltas so that a hang is attributable
            for (ci, ch) in deltas.chunks(12).enumerate() {
                let mut inp = json!({"rate": r, "eps": e, "deltas": ch});
                if ci % 2 == 1 {
                    inp["via"] = json!("approximate");
                }
                if ci % 3 == 2 {
                    // release jitter: Propagated over the approximated process
                    inp["jitter"] = json!(1 + (ci as u64 % 5));
                }
                ctx.call("poisson", inp, quantiles_call);
            }
        }
        for dl in [0u64, 1, 2, 3, 5, 8, 13, 20, 40] {
            let mean = dl * r[0] / r[1];
            if mean > 50 {
                continue;
            }
            let inp = json!({"rate": r, "delta": dl, "K": 2 * mean + 24});
            ctx.call("poisson_pmf", inp, pmf_call);
        }
    }
}
