//! Model-description language <-> library objects (DESIGN.md §2.1).
//!
//! Descriptions are plain `serde_json::Value` trees; the same trees are read
//! by the TLA+ specification (`spec/Arrival.tla`, `Wcet.tla`, `Demand.tla`,
//! `Supply.tla`). Only the public API of the library is used.

use std::iter::FromIterator;
use std::rc::Rc;

use response_time_analysis::arrival::{self, ArrivalBound};
use response_time_analysis::demand::{self, AggregateRequestBound, RequestBound};
use response_time_analysis::supply::{self, SupplyBound};
use response_time_analysis::time::{Duration, Offset, Service};
use response_time_analysis::wcet::{self, JobCostModel};
use serde_json::Value;

pub type AB = Rc<dyn ArrivalBound>;
pub type CM = Rc<dyn JobCostModel>;
pub type RB = Rc<dyn RequestBound>;
pub type ARB = Rc<dyn AggregateRequestBound>;
pub type SB = Rc<dyn SupplyBound>;

pub fn d(x: u64) -> Duration {
    Duration::from(x)
}
pub fn s(x: u64) -> Service {
    Service::from(x)
}
pub fn u(v: &Value) -> u64 {
    v.as_u64().unwrap_or_else(|| panic!("harness: expected u64, got {}", v))
}
pub fn us(v: &Value) -> Vec<u64> {
    v.as_array()
        .unwrap_or_else(|| panic!("harness: expected array, got {}", v))
        .iter()
        .map(u)
        .collect()
}
pub fn kind(v: &Value) -> &str {
    v["k"].as_str().unwrap_or_else(|| panic!("harness: no kind in {}", v))
}

/// A user-defined arrival bound that only implements `number_arrivals`
/// (sporadic with jitter semantics), so that the trait's default
/// `steps_iter` (= `brute_force_steps_iter`) is exercised.
#[derive(Clone)]
pub struct UserSporadic {
    pub t: u64,
    pub j: u64,
}

impl ArrivalBound for UserSporadic {
    fn number_arrivals(&self, delta: Duration) -> usize {
        let dl = u64::from(delta);
        if dl == 0 {
            0
        } else {
            ((dl + self.j + self.t - 1) / self.t) as usize
        }
    }
    fn clone_with_jitter(&self, jitter: Duration) -> Box<dyn ArrivalBound> {
        Box::new(UserSporadic {
            t: self.t,
            j: self.j + u64::from(jitter),
        })
    }
}

/// A user-defined supply that only implements `provided_service`, so that
/// the trait's default `service_time` is exercised.
pub struct DefaultInverse(pub SB);

impl SupplyBound for DefaultInverse {
    fn provided_service(&self, delta: Duration) -> Service {
        self.0.provided_service(delta)
    }
}

/// Like [DefaultInverse], and it logs every interval length `provided_service` is asked about: the iteration that
/// the trait's default `service_time` runs, observed without a hook.
pub struct LoggingInverse {
    pub inner: SB,
    pub log: std::cell::RefCell<Vec<u64>>,
}

impl SupplyBound for LoggingInverse {
    fn provided_service(&self, delta: Duration) -> Service {
        self.log.borrow_mut().push(u64::from(delta));
        self.inner.provided_service(delta)
    }
}

/// A user-defined supply given by a table of increments (a staircase that is
/// repeated periodically): used for C08 ("user-defined via the default
/// service_time").
pub struct StairSupply {
    pub pattern: Vec<u64>, // pattern[i] in {0,1}: service in tick i of the cycle
}

impl SupplyBound for StairSupply {
    fn provided_service(&self, delta: Duration) -> Service {
        let n = self.pattern.len() as u64;
        let per: u64 = self.pattern.iter().sum();
        let dl = u64::from(delta);
        let full = dl / n;
        let rest = (dl % n) as usize;
        let part: u64 = self.pattern[..rest].iter().sum();
        Service::from(full * per + part)
    }
}

pub fn build_curve(v: &Value) -> arrival::Curve {
    match kind(v) {
        "curve" => arrival::Curve::new(us(&v["d"]).into_iter().map(d).collect()),
        "citer" => arrival::Curve::from_iter(us(&v["d"]).into_iter().map(d)),
        "ctrace" => arrival::Curve::from_trace(
            us(&v["ev"]).into_iter().map(Offset::from),
            u(&v["n"]) as usize,
        ),
        "cfrom" => {
            let how = v["how"].as_str().unwrap();
            match how {
                "until" => {
                    let ab = build_arrival(&v["of"]);
                    arrival::Curve::from_arrival_bound_until(&ab, d(u(&v["arg"])))
                }
                "njobs" => {
                    let ab = build_arrival(&v["of"]);
                    arrival::Curve::from_arrival_bound(&ab, u(&v["arg"]) as usize)
                }
                "into" => match kind(&v["of"]) {
                    "periodic" => arrival::Curve::from(arrival::Periodic::new(d(u(&v["of"]["T"])))),
                    "sporadic" => arrival::Curve::from(arrival::Sporadic::new(
                        d(u(&v["of"]["T"])),
                        d(u(&v["of"]["J"])),
                    )),
                    // by reference or by value (two `From` impls), chosen by the parity of the horizon
                    "acp" | "acp_from" => {
                        let acp = build_acp(&v["of"]);
                        if u(&v["of"]["h"]) % 2 == 0 {
                            arrival::Curve::from(&acp)
                        } else {
                            arrival::Curve::from(acp)
                        }
                    }
                    k => panic!("harness: cfrom/into of {}", k),
                },
                h => panic!("harness: cfrom how {}", h),
            }
        }
        "cext" => {
            let mut c = build_curve(&v["of"]);
            match v["how"].as_str().unwrap() {
                "h" => c.extrapolate(d(u(&v["arg"]))),
                "n" => c.extrapolate_steps(u(&v["arg"]) as usize),
                "b" => {
                    let a = us(&v["arg"]);
                    c.extrapolate_with_bound((d(a[0]), a[1] as usize))
                }
                h => panic!("harness: cext how {}", h),
            }
            c
        }
        k => panic!("harness: not a curve kind: {}", k),
    }
}

pub fn build_acp(v: &Value) -> arrival::ArrivalCurvePrefix {
    match kind(v) {
        "acp" => {
            let steps = v["steps"]
                .as_array()
                .unwrap()
                .iter()
                .map(|p| (d(u(&p[0])), u(&p[1]) as usize))
                .collect();
            arrival::ArrivalCurvePrefix::new(d(u(&v["h"])), steps)
        }
        "acp_from" => {
            let ab = build_arrival(&v["of"]);
            arrival::ArrivalCurvePrefix::from_arrival_bound_until(&ab, d(u(&v["h"])))
        }
        k => panic!("harness: not an acp kind: {}", k),
    }
}

pub fn is_curve_kind(k: &str) -> bool {
    matches!(k, "curve" | "citer" | "ctrace" | "cfrom" | "cext")
}

pub fn build_arrival(v: &Value) -> AB {
    let k = kind(v);
    if is_curve_kind(k) {
        return Rc::new(build_curve(v));
    }
    match k {
        "never" => Rc::new(arrival::Never {}),
        "periodic" => Rc::new(arrival::Periodic::new(d(u(&v["T"])))),
        "sporadic" => Rc::new(arrival::Sporadic::new(d(u(&v["T"])), d(u(&v["J"])))),
        "user" => Rc::new(UserSporadic {
            t: u(&v["T"]),
            j: u(&v["J"]),
        }),
        "poisson" => Rc::new(arrival::ApproximatedPoisson::new(
            v["rate"].as_f64().unwrap(),
            v["eps"].as_f64().unwrap(),
        )),
        "xcurve" => Rc::new(arrival::ExtrapolatingCurve::new(build_curve(&v["of"]))),
        "acp" | "acp_from" => Rc::new(build_acp(v)),
        "prop" => {
            let inner = build_arrival(&v["of"]);
            Rc::new(arrival::Propagated::with_jitter(&inner, d(u(&v["J"]))))
        }
        // concrete (non-dyn) Propagated<Sporadic>, built through the public fields
        "prop_sporadic" => Rc::new(arrival::Propagated {
            response_time_jitter: d(u(&v["J"])),
            input_event_model: arrival::Sporadic::new(d(u(&v["of"]["T"])), d(u(&v["of"]["J"]))),
        }),
        "jit" => {
            let inner = build_arrival(&v["of"]);
            Rc::from(inner.clone_with_jitter(d(u(&v["J"]))))
        }
        "sum" => Rc::new(arrival::sum_of(build_arrival(&v["a"]), build_arrival(&v["b"]))),
        "vec" => {
            let parts: Vec<AB> = v["of"].as_array().unwrap().iter().map(build_arrival).collect();
            Rc::new(parts)
        }
        "slice" => {
            let parts: Vec<AB> = v["of"].as_array().unwrap().iter().map(build_arrival).collect();
            let leaked: &'static [AB] = Box::leak(parts.into_boxed_slice());
            Rc::new(leaked)
        }
        "wrap" => {
            let inner = build_arrival(&v["of"]);
            match v["w"].as_str().unwrap() {
                "box" => Rc::new(Box::new(inner)),
                "rc" => Rc::new(Rc::new(inner)),
                "ref" => {
                    let leaked: &'static AB = Box::leak(Box::new(inner));
                    Rc::new(leaked)
                }
                w => panic!("harness: wrap {}", w),
            }
        }
        k => panic!("harness: unknown arrival kind {}", k),
    }
}

/// A cost model that supplies only the required trait method; everything else is the trait's
/// default implementation (which must agree with the wrapped model's own overrides).
pub struct MinimalCost(pub CM);
impl JobCostModel for MinimalCost {
    fn job_cost_iter<'a>(&'a self) -> Box<dyn Iterator<Item = Service> + 'a> {
        self.0.job_cost_iter()
    }
}

/// A request bound that supplies only the required trait methods (see [MinimalCost]).
pub struct MinimalDemand(pub RB);
impl RequestBound for MinimalDemand {
    fn least_wcet_in_interval(&self, delta: Duration) -> Service {
        self.0.least_wcet_in_interval(delta)
    }
    fn steps_iter<'a>(&'a self) -> Box<dyn Iterator<Item = Duration> + 'a> {
        self.0.steps_iter()
    }
    fn job_cost_iter<'a>(&'a self, delta: Duration) -> Box<dyn Iterator<Item = Service> + 'a> {
        self.0.job_cost_iter(delta)
    }
}

pub fn build_wcurve(v: &Value) -> wcet::Curve {
    match kind(v) {
        "wcurve" => wcet::Curve::new(us(&v["w"]).into_iter().map(s).collect()),
        "wciter" => wcet::Curve::from_iter(us(&v["w"]).into_iter().map(s)),
        "wctrace" => wcet::Curve::from_trace(us(&v["costs"]).into_iter().map(s), u(&v["n"]) as usize),
        "wcext" => {
            let mut c = build_wcurve(&v["of"]);
            c.extrapolate(u(&v["n"]) as usize);
            c
        }
        k => panic!("harness: not a wcet curve kind: {}", k),
    }
}

pub fn build_cost(v: &Value) -> CM {
    match kind(v) {
        // two constructors of the same model, chosen by the parity of the bound
        "scalar" if u(&v["c"]) % 2 == 0 => Rc::new(wcet::Scalar::new(s(u(&v["c"])))),
        "scalar" => Rc::new(wcet::Scalar::from(s(u(&v["c"])))),
        "multiframe" => Rc::new(wcet::Multiframe::new(us(&v["cs"]).into_iter().map(s).collect())),
        "wcurve" | "wciter" | "wctrace" | "wcext" => Rc::new(build_wcurve(v)),
        "wxcurve" => Rc::new(wcet::ExtrapolatingCurve::new(build_wcurve(&v["of"]))),
        "wrap" => {
            let inner = build_cost(&v["of"]);
            match v["w"].as_str().unwrap() {
                "min" => Rc::new(MinimalCost(inner)),
                "box" => Rc::new(Box::new(inner)),
                "rc" => Rc::new(Rc::new(inner)),
                "ref" => {
                    let leaked: &'static CM = Box::leak(Box::new(inner));
                    Rc::new(leaked)
                }
                w => panic!("harness: wrap {}", w),
            }
        }
        k => panic!("harness: unknown cost kind {}", k),
    }
}

pub fn build_agg(v: &Value) -> ARB {
    match kind(v) {
        "agg" => {
            let parts: Vec<RB> = v["of"].as_array().unwrap().iter().map(build_demand).collect();
            Rc::new(demand::Aggregate::new(parts))
        }
        "dslice" => {
            let parts: Vec<RB> = v["of"].as_array().unwrap().iter().map(build_demand).collect();
            let leaked: &'static [RB] = Box::leak(parts.into_boxed_slice());
            Rc::new(demand::Slice::of(leaked))
        }
        k => panic!("harness: not an aggregate kind {}", k),
    }
}

pub fn build_demand(v: &Value) -> RB {
    match kind(v) {
        "rbf" => Rc::new(demand::RBF::new(build_arrival(&v["a"]), build_cost(&v["c"]))),
        "agg" => {
            let parts: Vec<RB> = v["of"].as_array().unwrap().iter().map(build_demand).collect();
            Rc::new(demand::Aggregate::new(parts))
        }
        "dslice" => {
            let parts: Vec<RB> = v["of"].as_array().unwrap().iter().map(build_demand).collect();
            let leaked: &'static [RB] = Box::leak(parts.into_boxed_slice());
            Rc::new(demand::Slice::of(leaked))
        }
        "wrap" => {
            let inner = build_demand(&v["of"]);
            match v["w"].as_str().unwrap() {
                "min" => Rc::new(MinimalDemand(inner)),
                "box" => Rc::new(Box::new(inner)),
                "rc" => Rc::new(Rc::new(inner)),
                "ref" => {
                    let leaked: &'static RB = Box::leak(Box::new(inner));
                    Rc::new(leaked)
                }
                w => panic!("harness: wrap {}", w),
            }
        }
        k => panic!("harness: unknown demand kind {}", k),
    }
}

pub fn build_supply(v: &Value) -> SB {
    let base: SB = match kind(v) {
        "dedicated" => Rc::new(supply::Dedicated::new()),
        "periodic" => Rc::new(supply::Periodic::new(s(u(&v["Q"])), d(u(&v["P"])))),
        "constrained" => Rc::new(supply::Constrained::new(
            s(u(&v["Q"])),
            d(u(&v["D"])),
            d(u(&v["P"])),
        )),
        "stair" => Rc::new(StairSupply {
            pattern: us(&v["pattern"]),
        }),
        k => panic!("harness: unknown supply kind {}", k),
    };
    if v.get("default_inverse").and_then(|b| b.as_bool()).unwrap_or(false) {
        Rc::new(DefaultInverse(base))
    } else {
        base
    }
}
